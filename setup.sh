#!/bin/sh
# Builds the overlay venv /verif/.venv offline: python 3.12 (same interpreter as /venv, which has
# odxtools installed editable -> /repo working tree) + z3-solver, cvc5, jsonschema from the wheelhouse.
set -e
cd "$(dirname "$0")"
V=.venv
if [ -x "$V/bin/python" ] && "$V/bin/python" -c 'import z3, jsonschema, odxtools, bitstruct' 2>/dev/null; then
  echo "setup: $V ok"; exit 0
fi
rm -rf "$V"
/venv/bin/python -m venv "$V"
PIP_NO_INDEX=1 "$V/bin/pip" install -q --no-index --find-links /opt/veriftools/wheels z3-solver cvc5 jsonschema
SP=$("$V/bin/python" -c 'import sysconfig; print(sysconfig.get_paths()["purelib"])')
echo "import site; site.addsitedir('/venv/lib/python3.12/site-packages')" > "$SP/_repo_deps.pth"
"$V/bin/python" -c 'import z3, jsonschema, odxtools, bitstruct; print("setup: built", z3.get_version_string(), odxtools.__file__)'
