# pyvc.registry -- harness / contract registration (sidecar; nothing in /repo is touched)
HARNESSES = {}
LOOPSPECS = {}  # (qualified function name, loop ordinal) -> LoopSpec
CALL_CONTRACTS = {}  # real function -> model used at call sites when a harness asks for it


class Harness:

    def __init__(self, fn, name, props, strength, family, covers, functions, limits, crosscheck, doc, bound,
                 use_contracts, expect_exits, assumes):
        self.assumes = assumes
        self.fn = fn
        self.name = name
        self.props = props
        self.strength = strength  # "P" | "E" | "B"
        self.family = family  # callable(tier, seed) -> list of param dicts
        self.covers = covers
        self.functions = functions  # real functions under contract in this harness
        self.limits = limits
        self.crosscheck = crosscheck
        self.doc = doc
        self.bound = bound  # text describing the bound for strength B
        self.use_contracts = use_contracts
        self.expect_exits = expect_exits


def harness(props, strength="P", family=None, covers=(), functions=(), limits=None, crosscheck=True, bound=None,
            use_contracts=(), name=None, expect_exits=(), assumes=()):

    def deco(fn):
        n = name or f"{fn.__module__.split('.')[-1]}.{fn.__name__}"
        HARNESSES[n] = Harness(fn, n, list(props), strength, family or (lambda tier, seed: [{}]), list(covers),
                               list(functions), dict(limits or {}), crosscheck, (fn.__doc__ or "").strip(), bound,
                               list(use_contracts), list(expect_exits), list(assumes))
        return fn

    return deco


def obligation_props(name, default):
    """`C01,C04:rest` -> (['C01','C04'], 'rest'); unprefixed -> (default, name)"""
    head, sep, rest = name.partition(":")
    if sep and head and all(len(p) >= 3 and p[0] == "C" and p[1:].isdigit() for p in head.split(",")):
        return head.split(","), rest
    return list(default), name


def call_contract(real_fn, group):
    """Register `spec_fn` (sidecar Python, same signature) as the contract that replaces `real_fn` at call sites in
    harnesses that ask for `group` (use_contracts=[group]).  The replacement is interpreted like any other code:
    H.check in it is the precondition obligation at the call site, its return value / H.assume the postcondition.
    A separate harness must verify real_fn against the same spec_fn."""

    def deco(spec_fn):
        key = getattr(real_fn, "__func__", real_fn)

        def model(I, args, kwargs, _spec=spec_fn):
            return I.run_function(_spec, list(args), dict(kwargs))

        CALL_CONTRACTS.setdefault(group, {})[key] = model
        return spec_fn

    return deco
