# second back end: cvc5 CLI on the SMT-LIB text of a query z3 answered `unknown`
import os
import subprocess
import tempfile

CVC5 = "/usr/bin/cvc5"


def cvc5_check(smt2_text, timeout_s=30, strings=False):
    """returns 'sat' | 'unsat' | 'unknown'"""
    if not os.path.exists(CVC5):
        return "unknown"
    fd, path = tempfile.mkstemp(suffix=".smt2", prefix="pyvc_")
    try:
        with os.fdopen(fd, "w") as f:
            f.write("(set-logic ALL)\n")
            f.write(smt2_text)
        cmd = [CVC5, f"--tlimit={int(timeout_s * 1000)}"]
        if strings:
            cmd.append("--strings-exp")
        cmd.append(path)
        try:
            out = subprocess.run(cmd, capture_output=True, text=True, timeout=timeout_s + 5).stdout
        except subprocess.TimeoutExpired:
            return "unknown"
        for line in out.splitlines():
            line = line.strip()
            if line in ("sat", "unsat", "unknown"):
                return line
        return "unknown"
    finally:
        try:
            os.unlink(path)
        except OSError:
            pass
