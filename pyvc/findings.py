# pyvc.findings -- known findings (genuine defects recorded rather than repaired); read-only at run time
import json
import os

ROOT = os.path.dirname(os.path.dirname(os.path.abspath(__file__)))
PATH = os.path.join(ROOT, "known_findings.json")
_CACHE = None


def load():
    global _CACHE
    if _CACHE is None:
        if os.path.exists(PATH):
            with open(PATH) as f:
                _CACHE = json.load(f)
        else:
            _CACHE = {"findings": []}
    return _CACHE


def open_findings():
    return [f for f in load()["findings"] if f.get("status") == "open"]


def for_harness(hname, params):
    out = []
    for f in open_findings():
        if f.get("harness") != hname:
            continue
        pm = f.get("params") or {}
        if all(str(params.get(k)) == str(v) or params.get(k) == v for k, v in pm.items()):
            out.append(f)
    return out
