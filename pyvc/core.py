# pyvc.core -- symbolic values and the path engine (solver plumbing, branching, obligations)
#
# Part of the sidecar verifier for odxtools: the real functions of /repo are read from the working
# tree on every run (pyvc.interp), executed symbolically path by path over z3 terms, and every
# obligation is discharged by z3 (cvc5 as second back end for `unknown`).
import time

import z3

BV8 = z3.BitVecSort(8)
INT = z3.IntSort()


class Undecided(Exception):
    """The engine cannot decide (unsupported construct, solver unknown, bound hit). Never a violation."""


class Infeasible(Exception):
    """Current path condition is unsatisfiable."""


class PathEnd(Exception):
    """End of an inductive-step path (invariant re-established); not a program behaviour."""


class PyRaise(Exception):
    """An exception raised by the interpreted program. `exc` is a real exception instance."""

    def __init__(self, exc, implicit=False, where=None):
        if isinstance(exc, type):
            exc = exc()
        self.exc = exc
        self.implicit = implicit  # raised by Python semantics / a dependency, not by a `raise` statement
        self.where = where

    @property
    def cls(self):
        return type(self.exc)

    def __repr__(self):
        return f"PyRaise({type(self.exc).__name__}, implicit={self.implicit}, where={self.where})"


class ForeignError(Exception):
    """Stands for whatever non-odxtools exception a dependency raises when its precondition is violated
    (e.g. bitstruct.Error in the pure-Python back end, ValueError/OverflowError/NotImplementedError in
    bitstruct.c).  It is deliberately not a subclass of any class odxtools catches."""


class Opaque:
    """A value we do not model (text of error messages, repr() results, ...)."""

    def __init__(self, why=""):
        self.why = why

    def __repr__(self):
        return f"<opaque {self.why}>"

    def __str__(self):
        return f"<opaque {self.why}>"

    def __format__(self, spec):
        return f"<opaque {self.why}>"


class SFmt(Opaque):
    """an f-string whose only symbolic parts are ints: treated as unmodelled text everywhere, except where a model
    needs the text (bitstruct format strings): there the int parts are decided by enumeration"""

    def __init__(self, parts):
        super().__init__("fstring")
        self.parts = parts


class Sym:
    __slots__ = ()


class SInt(Sym):
    """Python int.  z: z3 Int term.  bv: optional (bvterm, width, signed) view with z == bv2int(bvterm)."""
    __slots__ = ("z", "bv", "bitlen_of", "rng", "lowzeros", "shape")

    def __init__(self, z, bv=None, bitlen_of=None, rng=None, lowzeros=0, shape=None):
        self.shape = shape  # ("pow2", k) / ("pow2m1", k): the value is 2**k resp. 2**k - 1 for the z3 Int term k
        self.lowzeros = lowzeros  # number of low bits known to be zero (value was shifted left by this much)
        self.z = z
        self.bv = bv
        self.bitlen_of = bitlen_of  # z3 Int term x: this value is x.bit_length()
        self.rng = rng  # (lo, hi) concrete bounds already assumed for this value, if known

    def __repr__(self):
        return f"SInt({self.z})"


class SBool(Sym):
    __slots__ = ("z",)

    def __init__(self, z):
        self.z = z

    def __repr__(self):
        return f"SBool({self.z})"


class SReal(Sym):
    """Python float modelled as a mathematical real (assumption A-float)."""
    __slots__ = ("z",)

    def __init__(self, z):
        self.z = z

    def __repr__(self):
        return f"SReal({self.z})"


class SBytes(Sym):
    """bytes / bytearray: z3 array Int->BV8 with offset and (symbolic) length.  A mutable SBytes is a
    bytearray and keeps Python reference identity (the object is updated in place)."""
    __slots__ = ("arr", "off", "ln", "mutable")

    def __init__(self, arr, off, ln, mutable=False):
        self.arr, self.off, self.ln, self.mutable = arr, off, ln, mutable

    def at(self, j):
        return z3.Select(self.arr, self.off + j)

    def copy(self, mutable=None):
        return SBytes(self.arr, self.off, self.ln, self.mutable if mutable is None else mutable)

    @staticmethod
    def const(b, mutable=False):
        arr = z3.K(INT, z3.BitVecVal(0, 8))
        for i, x in enumerate(b):
            arr = z3.Store(arr, i, z3.BitVecVal(x, 8))
        return SBytes(arr, z3.IntVal(0), z3.IntVal(len(b)), mutable)

    def concrete_len(self):
        ln = z3.simplify(self.ln)
        return ln.as_long() if z3.is_int_value(ln) else None

    def __repr__(self):
        return f"SBytes(len={z3.simplify(self.ln)}, mutable={self.mutable})"


class SText(Sym):
    """Abstract text value (str) identified by a z3 Int id; only equality and codec calls are modelled."""
    __slots__ = ("tid", "ln")

    def __init__(self, tid, ln):
        self.tid = tid  # z3 Int
        self.ln = ln  # z3 Int: number of characters

    def __repr__(self):
        return f"SText({self.tid})"


class SNumText(Sym):
    """the decimal text of a symbolic number (str(x)); float()/int() of it give the number back
    (A-float: float(str(x)) == x)"""
    __slots__ = ("num",)

    def __init__(self, num):
        self.num = num  # SInt or SReal

    def __repr__(self):
        return f"SNumText({self.num})"


class SRange:

    def __init__(self, start, stop):
        self.start, self.stop = start, stop  # z3 Int terms


def is_sym(v):
    return isinstance(v, Sym)


def zint(v):
    if isinstance(v, SInt):
        return v.z
    if isinstance(v, SBool):
        return z3.If(v.z, 1, 0)
    if isinstance(v, bool):
        return z3.IntVal(int(v))
    if isinstance(v, int):
        return z3.IntVal(int(v))
    if z3.is_expr(v):
        return v
    raise Undecided(f"not an int: {v!r}")


def zreal(v):
    if isinstance(v, SReal):
        return v.z
    if isinstance(v, SInt):
        return z3.ToReal(v.z)
    if isinstance(v, SBool):
        return z3.If(v.z, z3.RealVal(1), z3.RealVal(0))
    if isinstance(v, bool):
        return z3.RealVal(int(v))
    if isinstance(v, int):
        return z3.RealVal(v)
    if isinstance(v, float):
        if v != v or v in (float("inf"), float("-inf")):
            raise Undecided("non-finite float")
        from fractions import Fraction
        fr = Fraction(v)
        return z3.RealVal(fr.numerator) / z3.RealVal(fr.denominator) if fr.denominator != 1 else z3.RealVal(
            fr.numerator)
    raise Undecided(f"not a number: {v!r}")


def zbool(v):
    if isinstance(v, SBool):
        return v.z
    if isinstance(v, bool):
        return z3.BoolVal(v)
    if z3.is_expr(v):
        return v
    raise Undecided(f"not a bool: {v!r}")


class Obligation:
    __slots__ = ("name", "proved", "refuted", "unknown", "models", "solver_s", "backends", "sample")

    def __init__(self, name):
        self.name = name
        self.proved = 0
        self.refuted = 0
        self.unknown = 0
        self.models = []
        self.solver_s = 0.0
        self.backends = {}
        self.sample = None


class Engine:
    """One instance per explored path."""

    FEAS_TIMEOUT_MS = 700
    OBL_TIMEOUT_MS = 120000
    CVC5_TIMEOUT_S = 8
    FIRST_TIMEOUT_MS = 4000

    def __init__(self, decisions, stats, inputs_decl=None):
        self.solver = z3.Solver()
        self.solver.set(timeout=self.OBL_TIMEOUT_MS)
        self.decisions = decisions
        self.dpos = 0
        self.stats = stats  # shared dict across the paths of one task
        self.fresh = 0
        self.events = []  # ghost events (warnings, sends, ...)
        self.inputs = {}  # declared harness inputs: name -> symbolic value
        self.assumed = []
        self.path_bounded = False  # an unwinding assumption was made on this path
        self.quantified = False
        self.results = []  # (name, status, model_inputs | None, info)
        self.covers = set()
        self.globals_overlay = {}
        self.text_facts = {}
        self.notes = []
        self.bv_alias = {}

    # ---------- solver plumbing
    def assume(self, c):
        if isinstance(c, bool):
            if not c:
                raise Infeasible()
            return
        self.solver.add(c)

    def _check(self, timeout_ms):
        self.stats["queries"] = self.stats.get("queries", 0) + 1
        self.solver.set(timeout=timeout_ms)
        t0 = time.time()
        r = self.solver.check()
        self.stats["solver_s"] = self.stats.get("solver_s", 0.0) + time.time() - t0
        return r

    def feasible(self, c):
        self.solver.push()
        self.solver.add(c)
        r = self._check(self.FEAS_TIMEOUT_MS)
        if r == z3.unknown and not self.quantified:
            # a busy machine must not change which paths are explored: one retry with a budget that an unquantified
            # query only exceeds when it is hard by itself (quantified ones stay unknown whatever the budget)
            r = self._check(self.FEAS_TIMEOUT_MS * 10)
        self.solver.pop()
        if r == z3.unknown:
            self.stats["feas_unknown"] = self.stats.get("feas_unknown", 0) + 1
            return True  # over-approximate: explore the path anyway (sound)
        return r == z3.sat

    def branch(self, c, likely=None):
        """Decide a symbolic condition; both sides are explored by re-execution.  `likely` is only a hint for
        the order of the two feasibility queries (the second is skipped when the first side is infeasible,
        because the path condition itself is kept satisfiable)."""
        if isinstance(c, bool):
            return c
        c = z3.simplify(c)
        if z3.is_true(c):
            return True
        if z3.is_false(c):
            return False
        if self.dpos < len(self.decisions):
            d = self.decisions[self.dpos][0]
        else:
            if likely:
                f = self.feasible(z3.Not(c))
                t = True if not f else self.feasible(c)
            else:
                t = self.feasible(c)
                f = True if not t else self.feasible(z3.Not(c))
            if t and f:
                self.decisions.append([True, [False]])  # [choice, remaining alternatives]
                d = True
            elif t:
                self.decisions.append([True, []])
                d = True
            elif f:
                self.decisions.append([False, []])
                d = False
            else:
                raise Infeasible()
        self.dpos += 1
        self.assume(c if d else z3.Not(c))
        return d

    def choose_value(self, z, max_values=80):
        """Multi-way decision on the value of an Int term: the feasible values are enumerated once (by
        model + blocking clause), recorded, and each is explored by re-execution."""
        z = z3.simplify(z)
        if z3.is_int_value(z):
            return z.as_long()
        if self.dpos < len(self.decisions):
            v = self.decisions[self.dpos][0]
        else:
            vals = []
            self.solver.push()
            while True:
                r = self._check(self.OBL_TIMEOUT_MS)
                if r == z3.unsat:
                    break
                if r == z3.unknown:
                    self.solver.pop()
                    raise Undecided("solver unknown while enumerating the values of a symbolic count")
                v = self.solver.model().eval(z, model_completion=True).as_long()
                vals.append(v)
                if len(vals) > max_values:
                    self.solver.pop()
                    raise Undecided(f"more than {max_values} feasible values for a symbolic count/index")
                self.solver.add(z != v)
            self.solver.pop()
            if not vals:
                raise Infeasible()
            vals.sort()
            self.decisions.append([vals[0], vals[1:]])
            v = vals[0]
        self.dpos += 1
        self.assume(z == v)
        return v

    def unique_value(self, z):
        """the integer value of z if the path condition determines it uniquely, else None"""
        z = z3.simplify(z)
        if z3.is_int_value(z):
            return z.as_long()
        if self._check(2000) != z3.sat:
            return None
        v = self.solver.model().eval(z, model_completion=True)
        if not z3.is_int_value(v):
            return None
        if self.feasible(z != v):
            return None
        return v.as_long()

    def choose(self, n, label="choice"):
        """Non-deterministic choice among n alternatives (all explored)."""
        for k in range(n - 1):
            self.fresh += 1
            if self.branch(z3.Bool(f"{label}!{self.fresh}")):
                return k
        return n - 1

    def check(self, c, name, info=None, independent=False):
        """Proof obligation: pc => c.  Result recorded; afterwards c is assumed (so that one failure
        does not cascade into every later obligation of the path)."""
        self.stats["checks"] = self.stats.get("checks", 0) + 1
        if isinstance(c, bool):
            c = z3.BoolVal(c)
        c = z3.simplify(c)
        if z3.is_true(c):
            self.results.append((name, "proved", None, "trivial"))
            return True
        self.solver.push()
        self.solver.add(z3.Not(c))
        t_obl = time.time()
        # staged: z3 briefly, then cvc5 (decides most of the nonlinear obligations z3 gives up on at once), then z3
        # with the full budget
        r = self._check(min(self.FIRST_TIMEOUT_MS, self.OBL_TIMEOUT_MS))
        staged_cvc5 = None
        if r == z3.unknown and self.OBL_TIMEOUT_MS > self.FIRST_TIMEOUT_MS:
            try:
                smt2_first = self.solver.to_smt2()
            except Exception:
                smt2_first = None
            if smt2_first is not None:
                from . import backends
                t_c = time.time()
                staged_cvc5 = backends.cvc5_check(smt2_first, timeout_s=self.CVC5_TIMEOUT_S)
                t_c = time.time() - t_c
                self.stats["cvc5_s"] = self.stats.get("cvc5_s", 0.0) + t_c
                self.stats["cvc5_max_s"] = max(self.stats.get("cvc5_max_s", 0.0), t_c)
            if staged_cvc5 != "unsat":
                r = self._check(self.OBL_TIMEOUT_MS)
        t_obl = time.time() - t_obl
        if t_obl > self.stats.get("max_obl_s", 0.0):
            self.stats["max_obl_s"] = t_obl
            self.stats["max_obl_name"] = name
        model_inputs = None
        status = "proved"
        backend = "z3"
        if r == z3.sat:
            status = "refuted"
            model_inputs = self.model_inputs(self.solver.model())
        elif r == z3.unknown:
            status = "unknown"
            if staged_cvc5 == "unsat":
                status, backend = "proved", "cvc5"
        self.solver.pop()
        if status == "refuted":
            status, model_inputs = self.match_known_finding(name, c, status, model_inputs)
        self.results.append((name, status, model_inputs, backend if info is None else f"{backend};{info}"))
        if status == "proved" or status == "unknown":
            self.assume(c)
        elif independent and status == "refuted":
            pass
        else:
            # continue on the sub-path where the obligation holds, if there is one (else unconstrained: later
            # obligations of the path are still evaluated - they may be tagged for other properties)
            if self.feasible(c):
                self.assume(c)
        return status == "proved"

    known_findings = ()
    eval_witness = None

    def quantified_inputs_unsafe(self):
        return False

    def match_known_finding(self, name, c, status, model_inputs):
        """A refuted obligation that has a listed finding is re-proved under the negated witness class:
        if it then holds, only the listed failure exists (status known:<id>); otherwise the counter-model
        outside the class is reported as a new violation."""
        for f in self.known_findings:
            if f.get("obligation") != name or self.eval_witness is None:
                continue
            try:
                wc = self.eval_witness(f["witness_class"])
            except Exception as ex:  # a broken predicate must not hide anything
                self.notes.append(("witness-class-error", f.get("id"), repr(ex)))
                continue
            self.solver.push()
            self.solver.add(z3.Not(z3.Or(wc, c)))
            r = self._check(self.OBL_TIMEOUT_MS)
            if r == z3.unsat:
                self.solver.pop()
                return f"known:{f['id']}", model_inputs
            if r == z3.sat:
                model_inputs = self.model_inputs(self.solver.model())
            self.solver.pop()
        return status, model_inputs

    def model_inputs(self, m):
        out = {}
        for name, v in self.inputs.items():
            out[name] = concretize(m, v)
        return out

    def newname(self, base):
        self.fresh += 1
        return f"{base}!{self.fresh}"

    def newint(self, base="t"):
        return SInt(z3.Int(self.newname(base)))

    def event(self, *ev):
        self.events.append(ev)


def concretize(m, v):
    """Concrete Python value of a symbolic value under model m (model completion on)."""
    if isinstance(v, SInt):
        return m.eval(v.z, model_completion=True).as_long()
    if isinstance(v, SBool):
        return z3.is_true(m.eval(v.z, model_completion=True))
    if isinstance(v, SReal):
        r = m.eval(v.z, model_completion=True)
        if z3.is_algebraic_value(r):
            r = r.approx(20)
        from fractions import Fraction
        return Fraction(r.numerator_as_long(), r.denominator_as_long())
    if isinstance(v, SBytes):
        n = m.eval(v.ln, model_completion=True).as_long()
        n = max(0, min(n, 1 << 17))
        bs = bytes(m.eval(v.at(z3.IntVal(i)), model_completion=True).as_long() for i in range(n))
        return bytearray(bs) if v.mutable else bs
    if isinstance(v, SText):
        return ("text", m.eval(v.tid, model_completion=True).as_long(),
                m.eval(v.ln, model_completion=True).as_long())
    if isinstance(v, (list, tuple)):
        return type(v)(concretize(m, x) for x in v)
    if isinstance(v, dict):
        return {k: concretize(m, x) for k, x in v.items()}
    return v
