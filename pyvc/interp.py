# pyvc.interp -- tree-walking symbolic interpreter of the *real* function ASTs.
#
# Every function is obtained as a live function object from the imported module (odxtools is an
# editable install -> /repo working tree); its source is read with inspect.getsource on every run.
# What is dropped: annotations, docstrings, `if TYPE_CHECKING` arms (run-time value False), the text of
# error messages when it depends on symbolic values (Opaque), logger calls (no-op).
import ast
import builtins
import dataclasses
import enum
import functools
import hashlib
import inspect
import textwrap
import types

import z3

from .core import (INT, BV8, ForeignError, Infeasible, Opaque, PathEnd, PyRaise, SBool, SBytes, SInt, SRange,
                   SReal, SText, Sym, Undecided, is_sym, zbool, zint, zreal)
from . import ops

INTERPRETED_PREFIXES = ("odxtools", "contracts", "spec")


class _Return(Exception):

    def __init__(self, v):
        self.v = v


class _Break(Exception):
    pass


class _Continue(Exception):
    pass


class Closure:
    """lambda / nested def created inside interpreted code"""

    def __init__(self, node, env, g, fn):
        self.node, self.env, self.g, self.fn = node, env, g, fn
        self.__name__ = getattr(node, "name", "<lambda>")


class BoundMethod:

    def __init__(self, func, obj):
        self.func, self.obj = func, obj


class SymMethod:

    def __init__(self, obj, name):
        self.obj, self.name = obj, name


class SuperProxy:

    def __init__(self, cls, obj):
        self.cls, self.obj = cls, obj


class Env(dict):
    """local scope with optional enclosing scope (closures)"""

    def __init__(self, parent=None):
        super().__init__()
        self.parent = parent

    def lookup(self, name):
        e = self
        while e is not None:
            if name in e:
                return True, dict.__getitem__(e, name)
            e = e.parent
        return False, None


_SRC_CACHE = {}
FUNCTIONS_SEEN = {}  # qualname -> {file, line, sha256}


def get_ast(fn):
    fn = getattr(fn, "__func__", fn)
    if fn not in _SRC_CACHE:
        try:
            src = inspect.getsource(fn)
        except (OSError, TypeError) as e:
            raise Undecided(f"no source for {fn!r}: {e}")
        tree = ast.parse(textwrap.dedent(src)).body[0]
        _SRC_CACHE[fn] = tree
        if fn.__module__ and fn.__module__.startswith("odxtools"):
            try:
                file = inspect.getsourcefile(fn)
                line = inspect.getsourcelines(fn)[1]
            except Exception:
                file, line = "?", 0
            FUNCTIONS_SEEN[f"{fn.__module__}.{fn.__qualname__}"] = {
                "file": file,
                "line": line,
                "sha256": hashlib.sha256(src.encode()).hexdigest()[:16],
            }
    return _SRC_CACHE[fn]


def is_interpretable(fn):
    fn = getattr(fn, "__func__", fn)
    return isinstance(fn, types.FunctionType) and (fn.__module__ or "").split(".")[0] in INTERPRETED_PREFIXES


def owner_class(fn):
    """class in whose body fn was defined (for name mangling and super())"""
    qn = fn.__qualname__.split(".")
    if len(qn) < 2 or "<locals>" in qn:
        return None
    obj = fn.__globals__.get(qn[0])
    for part in qn[1:-1]:
        obj = getattr(obj, part, None)
    return obj if isinstance(obj, type) else None


class Interp:

    def __init__(self, eng, models, loopspecs=None, contracts=None, limits=None):
        self.e = eng
        self.models = models  # callable -> model(interp, args, kwargs)
        self.loopspecs = loopspecs or {}
        self.contracts = contracts or {}  # real function -> model replacing it at call sites
        self.depth = 0
        self.limits = {"while_unroll": 70, "depth": 60, "sym_for_unroll": 0}
        if limits:
            self.limits.update(limits)
        self.api = None  # set by the runner (symbolic implementation of H)
        self.called = set()

    # ------------------------------------------------------------------ calls
    def call(self, f, args=(), kwargs=None):
        """call any callable value"""
        args = list(args)
        kwargs = dict(kwargs or {})
        if (any(isinstance(a, ops.LazyShot) for a in args) or any(isinstance(v, ops.LazyShot) for v in kwargs.values())) \
                and not self.passes_generators_on(f):
            # models and native code receive the items of a generator expression (it runs now and is used up)
            args = [a.take_all() if isinstance(a, ops.LazyShot) else a for a in args]
            kwargs = {k: (v.take_all() if isinstance(v, ops.LazyShot) else v) for k, v in kwargs.items()}
        if isinstance(f, BoundMethod):
            return self.call(f.func, [f.obj] + args, kwargs)
        if isinstance(f, SymMethod):
            return ops.symmethod(self, f.obj, f.name, args, kwargs)
        if isinstance(f, ops._PyvcMethod):
            return f.obj.__pyvc_method__(self, f.name, args, kwargs)
        if isinstance(f, Closure):
            return self.run_closure(f, args, kwargs)
        if isinstance(f, functools.partial):
            return self.call(f.func, list(f.args) + args, {**f.keywords, **kwargs})
        if isinstance(f, types.MethodType):
            if self.api is not None and f.__self__ is self.api.proxy:
                return getattr(self.api, f.__func__.__name__)(*args, **kwargs)
            return self.call(f.__func__, [f.__self__] + args, kwargs)
        key = f
        if key in self.contracts:
            return self.contracts[key](self, args, kwargs)
        try:
            model = self.models.get(key)
        except TypeError:
            model = None
        if model is not None:
            return model(self, args, kwargs)
        if isinstance(f, types.FunctionType):
            if is_interpretable(f):
                return self.run_function(f, args, kwargs)
        if isinstance(f, type):
            return self.instantiate(f, args, kwargs)
        if isinstance(f, (types.BuiltinFunctionType, types.BuiltinMethodType, types.MethodDescriptorType,
                          types.WrapperDescriptorType, types.MethodWrapperType, types.FunctionType)) or callable(f):
            if isinstance(f, (types.BuiltinMethodType, types.MethodWrapperType)) and getattr(
                    f, "__self__", None) is not None and not isinstance(f.__self__, types.ModuleType):
                m = ops.container_method(self, f.__self__, f.__name__, args, kwargs)
                if m is not ops.NOT_HANDLED:
                    return m
            if ops.all_concrete(args) and ops.all_concrete(kwargs.values()):
                return self.native(f, args, kwargs)
            cargs, ckw = ops.concretize_args(args, kwargs)
            if ops.all_concrete(cargs) and ops.all_concrete(ckw.values()):
                return self.native(f, cargs, ckw)
        raise Undecided(f"no model for {f!r} with symbolic arguments")

    def passes_generators_on(self, f):
        """is a generator object handed on as it is (interpreted code, iter/next), or consumed by a model?"""
        if isinstance(f, (BoundMethod, Closure, functools.partial, types.MethodType)):
            return True
        if f is builtins.iter or f is builtins.next:
            return True
        try:
            modelled = f in self.contracts or self.models.get(f) is not None
        except TypeError:
            return False
        if modelled:
            return False
        if isinstance(f, types.FunctionType):
            return is_interpretable(f)
        if isinstance(f, type):
            return (f.__module__ or "").split(".")[0] in INTERPRETED_PREFIXES and not issubclass(f, enum.Enum)
        return False

    def native(self, f, args, kwargs):
        try:
            return f(*args, **kwargs)
        except (Undecided, Infeasible, PyRaise, PathEnd):
            raise
        except Exception as ex:
            raise PyRaise(ex, implicit=True, where=getattr(f, "__name__", repr(f)))

    def instantiate(self, cls, args, kwargs):
        if issubclass(cls, BaseException):
            try:
                return cls(*args, **kwargs)
            except Exception as ex:
                raise PyRaise(ex, implicit=True)
        if cls is object and not args and not kwargs:
            return object()
        if cls in (int, float, str, bytes, bytearray, bool, list, tuple, dict, set, frozenset, range, enumerate,
                   zip, reversed, type, object, super):
            raise Undecided(f"builtin type {cls.__name__} without model for these arguments")
        mod = (cls.__module__ or "").split(".")[0]
        if mod not in INTERPRETED_PREFIXES or issubclass(cls, enum.Enum):
            if ops.all_concrete(args) and ops.all_concrete(kwargs.values()):
                return self.native(cls, args, kwargs)
            raise Undecided(f"instantiation of foreign class {cls.__name__} with symbolic arguments")
        if ops.all_deep_concrete(args) and ops.all_deep_concrete(kwargs.values()) and \
                not getattr(cls, "__pyvc_interpret_init__", False):
            obj = self.native(cls, args, kwargs)
            d = getattr(obj, "__dict__", None)
            if isinstance(d, dict):
                for k, v in list(d.items()):
                    if type(v) is bytearray:  # bytearrays owned by interpreted objects are symbolic-capable
                        d[k] = SBytes.const(v, True)
            return obj
        obj = cls.__new__(cls)
        init = inspect.getattr_static(cls, "__init__")
        generated = isinstance(init, types.FunctionType) and init.__code__.co_filename.startswith("<")
        if dataclasses.is_dataclass(cls) and (generated or not is_interpretable(init)):
            flds = [f for f in dataclasses.fields(cls) if f.init]
            if len(args) > len(flds):
                raise PyRaise(TypeError("too many positional arguments"), implicit=True)
            vals = {}
            for f, a in zip(flds, args):
                vals[f.name] = a
            for k, v in kwargs.items():
                if k in vals or k not in {f.name for f in flds}:
                    raise PyRaise(TypeError(f"unexpected argument {k}"), implicit=True)
                vals[k] = v
            for f in dataclasses.fields(cls):
                if f.name in vals:
                    v = vals[f.name]
                elif f.default is not dataclasses.MISSING:
                    v = f.default
                elif f.default_factory is not dataclasses.MISSING:
                    v = f.default_factory()
                    if type(v) is bytearray:
                        v = SBytes.const(v, True)
                elif not f.init:
                    continue
                else:
                    raise PyRaise(TypeError(f"missing argument {f.name}"), implicit=True)
                object.__setattr__(obj, f.name, v)
            post = getattr(cls, "__post_init__", None)
            if post is not None:
                self.call(post, [obj], {})
            return obj
        if is_interpretable(init):
            self.run_function(init, [obj] + list(args), kwargs)
            return obj
        if init is object.__init__ and not args and not kwargs:
            return obj
        raise Undecided(f"cannot instantiate {cls.__name__} symbolically")

    def bind_args(self, tree, fn_name, args, kwargs, g, defaults_env=None):
        a = tree.args
        env = {}
        args = list(args)
        kwargs = dict(kwargs)
        params = [x.arg for x in a.posonlyargs + a.args]
        ndef = len(a.defaults)
        if len(args) > len(params):
            if a.vararg is None:
                raise PyRaise(TypeError(f"{fn_name}() takes {len(params)} positional arguments"), implicit=True)
            env[a.vararg.arg] = tuple(args[len(params):])
            args = args[:len(params)]
        elif a.vararg is not None:
            env[a.vararg.arg] = ()
        for i, p in enumerate(params):
            if i < len(args):
                if p in kwargs:
                    raise PyRaise(TypeError(f"{fn_name}() got multiple values for argument {p}"), implicit=True)
                env[p] = args[i]
            elif p in kwargs:
                env[p] = kwargs.pop(p)
            else:
                di = i - (len(params) - ndef)
                if di < 0:
                    raise PyRaise(TypeError(f"{fn_name}() missing argument {p}"), implicit=True)
                env[p] = self.eval_default(a.defaults[di], g, defaults_env)
        for i, p in enumerate(a.kwonlyargs):
            if p.arg in kwargs:
                env[p.arg] = kwargs.pop(p.arg)
            elif a.kw_defaults[i] is not None:
                env[p.arg] = self.eval_default(a.kw_defaults[i], g, defaults_env)
            else:
                raise PyRaise(TypeError(f"{fn_name}() missing keyword argument {p.arg}"), implicit=True)
        if a.kwarg is not None:
            env[a.kwarg.arg] = kwargs
        elif kwargs:
            raise PyRaise(TypeError(f"{fn_name}() got unexpected keyword arguments {list(kwargs)}"), implicit=True)
        return env

    def eval_default(self, node, g, defaults_env):
        return self.eval(node, defaults_env if defaults_env is not None else Env(), g, None)

    def run_function(self, fn, args, kwargs):
        tree = get_ast(fn)
        self.called.add(f"{fn.__module__}.{fn.__qualname__}")
        env = Env()
        env.update(self.bind_args(tree, fn.__name__, args, kwargs, fn.__globals__))
        return self.run_body(tree, env, fn.__globals__, fn)

    def run_closure(self, c, args, kwargs):
        env = Env(c.env)
        env.update(self.bind_args(c.node, c.__name__, args, kwargs, c.g, c.env))
        if isinstance(c.node, ast.Lambda):
            return self.eval(c.node.body, env, c.g, c.fn)
        return self.run_body(c.node, env, c.g, c.fn)

    def run_body(self, tree, env, g, fn):
        self.depth += 1
        if self.depth > self.limits["depth"]:
            self.depth -= 1
            raise Undecided("call depth limit")
        isgen = any(isinstance(n, (ast.Yield, ast.YieldFrom)) for n in ast.walk(tree)
                    if True) and self._own_yield(tree)
        if isgen:
            env["__yields__"] = []
        try:
            self.exec_block(tree.body, env, g, fn)
            return env["__yields__"] if isgen else None
        except _Return as r:
            return env["__yields__"] if isgen else r.v
        finally:
            self.depth -= 1

    @staticmethod
    def _own_yield(tree):
        # yields that belong to this function (not to nested defs/lambdas)
        stack = list(tree.body)
        while stack:
            n = stack.pop()
            if isinstance(n, (ast.Yield, ast.YieldFrom)):
                return True
            if isinstance(n, (ast.FunctionDef, ast.Lambda, ast.AsyncFunctionDef, ast.ClassDef)):
                continue
            stack.extend(ast.iter_child_nodes(n))
        return False

    def make_local_class(self, node, env, g, fn):
        """a class statement inside an interpreted function: the class object is built natively from the same source
        lines (so that its methods are real functions whose source inspect finds in the real file, and which are
        interpreted like every other repository function when called); free names are taken from the enclosing scopes"""
        real_fn = getattr(fn, "__func__", fn)
        try:
            file = inspect.getsourcefile(real_fn)
            first = real_fn.__code__.co_firstlineno
        except Exception as ex:
            raise Undecided(f"local class {node.name}: {ex}")
        ns = dict(g)
        scope = env
        chain = []
        while scope is not None:
            chain.append(scope)
            scope = scope.parent
        for sc in reversed(chain):
            for k, v in sc.items():
                if not k.startswith("__") and ops.all_concrete([v]):
                    ns[k] = v
        import copy as _copy
        cnode = _copy.deepcopy(node)
        ast.increment_lineno(cnode, first - 1)
        mod = ast.Module(body=[cnode], type_ignores=[])
        ast.fix_missing_locations(mod)
        try:
            exec(compile(mod, file or "<local class>", "exec"), ns)
        except Exception as ex:
            raise Undecided(f"local class {node.name}: {type(ex).__name__}: {ex}")
        return ns[node.name]

    # ------------------------------------------------------------------ statements
    def exec_block(self, stmts, env, g, fn):
        for s in stmts:
            self.exec(s, env, g, fn)

    def exec(self, s, env, g, fn):
        e = self.e
        if isinstance(s, ast.Expr):
            if isinstance(s.value, ast.Constant):
                return
            self.eval(s.value, env, g, fn)
        elif isinstance(s, ast.Assign):
            v = self.eval(s.value, env, g, fn)
            for t in s.targets:
                self.assign(t, v, env, g, fn)
        elif isinstance(s, ast.AnnAssign):
            if s.value is not None:
                self.assign(s.target, self.eval(s.value, env, g, fn), env, g, fn)
        elif isinstance(s, ast.AugAssign):
            cur = self.eval(s.target, env, g, fn)
            rhs = self.eval(s.value, env, g, fn)
            if isinstance(cur, SBytes) and cur.mutable and isinstance(s.op, ast.Add):
                nv = ops.bytes_binop(self, s.op, cur, rhs)
                cur.arr, cur.off, cur.ln = nv.arr, nv.off, nv.ln  # in place: aliases see it
                return
            if isinstance(cur, bytearray) and isinstance(s.op, ast.Add):
                if is_sym(rhs):
                    raise Undecided("concrete bytearray += symbolic bytes (use H.bytearray)")
                cur += rhs
                return
            if isinstance(cur, list) and isinstance(s.op, ast.Add):
                cur.extend(ops.iterate(self, rhs))
                return
            self.assign(s.target, ops.binop(self, s.op, cur, rhs), env, g, fn)
        elif isinstance(s, ast.If):
            if self.ghost_only_if(s, env, g, fn):
                return
            if ops.truth(self, self.eval(s.test, env, g, fn)):
                self.exec_block(s.body, env, g, fn)
            else:
                self.exec_block(s.orelse, env, g, fn)
        elif isinstance(s, ast.Return):
            raise _Return(self.eval(s.value, env, g, fn) if s.value else None)
        elif isinstance(s, ast.Pass):
            pass
        elif isinstance(s, ast.Raise):
            if s.exc is None:
                cur = env.lookup("__current_exc__")[1]
                if cur is None:
                    raise PyRaise(RuntimeError("No active exception to reraise"), implicit=True)
                raise cur
            v = self.eval(s.exc, env, g, fn)
            if isinstance(v, type) and issubclass(v, BaseException):
                v = self.instantiate(v, [], {})
            if isinstance(v, BaseException):
                raise PyRaise(v, where=f"{getattr(fn, '__qualname__', '?')}:{s.lineno}")
            raise Undecided("raise of a non-exception value")
        elif isinstance(s, ast.For):
            self.exec_for(s, env, g, fn)
        elif isinstance(s, ast.While):
            self.exec_while(s, env, g, fn)
        elif isinstance(s, ast.Break):
            raise _Break()
        elif isinstance(s, ast.Continue):
            raise _Continue()
        elif isinstance(s, ast.Try):
            self.exec_try(s, env, g, fn)
        elif isinstance(s, (ast.Import, ast.ImportFrom)):
            ns = {}
            exec(compile(ast.Module([s], []), "<imp>", "exec"), dict(g), ns)
            env.update(ns)
        elif isinstance(s, ast.Assert):
            if not ops.truth(self, self.eval(s.test, env, g, fn)):
                raise PyRaise(AssertionError(), implicit=True, where=f"assert:{getattr(fn, '__qualname__', '?')}:{s.lineno}")
        elif isinstance(s, ast.FunctionDef):
            env[s.name] = Closure(s, env, g, fn)
        elif isinstance(s, ast.ClassDef):
            env[s.name] = self.make_local_class(s, env, g, fn)
        elif isinstance(s, ast.Delete):
            for t in s.targets:
                self.delete(t, env, g, fn)
        elif isinstance(s, ast.With):
            self.exec_with(s, env, g, fn)
        elif isinstance(s, ast.Global):
            env.setdefault("__globals_decl__", set()).update(s.names)
        elif isinstance(s, ast.Nonlocal):
            env.setdefault("__nonlocal_decl__", set()).update(s.names)
        else:
            raise Undecided(f"statement {type(s).__name__}")

    def ghost_only_if(self, s, env, g, fn):
        """`if c: warnings.warn(...)` (no else): the body only records a ghost event, so the two paths are merged
        into one with a conditional event instead of forking (keeps byte loops from exploding into 2^n paths)."""
        import warnings
        if s.orelse or len(s.body) != 1 or not isinstance(s.body[0], ast.Expr) or not isinstance(
                s.body[0].value, ast.Call):
            return False
        call = s.body[0].value
        try:
            f = self.eval(call.func, env, g, fn)
        except (PyRaise, Undecided):
            return False
        if f is not warnings.warn:
            return False
        c = self.eval(s.test, env, g, fn)
        if not isinstance(c, SBool):
            if ops.truth(self, c):
                self.eval(call, env, g, fn)
            return True
        hazard = self.format_hazard(call.args[0], env, g, fn) if call.args else None
        if hazard is not None and self.e.branch(c.z, likely=False):
            # building the message itself fails (a format code that does not fit the type of the value)
            raise PyRaise(hazard, implicit=True, where=f"format:{getattr(fn, '__qualname__', '?')}:{s.lineno}")
        cat = UserWarning
        if len(call.args) > 1:
            cat = self.eval(call.args[1], env, g, fn)
        for k in call.keywords:
            if k.arg == "category":
                cat = self.eval(k.value, env, g, fn)
        self.e.event("warn", cat, c.z)
        return True

    def format_hazard(self, node, env, g, fn):
        """an f-string whose format specification cannot be applied to the (symbolic) value it formats: the exception
        Python raises when the string is built, else None.  Only concrete format specifications are looked at."""
        if not isinstance(node, ast.JoinedStr):
            return None
        for part in node.values:
            if not isinstance(part, ast.FormattedValue) or part.format_spec is None or part.conversion != -1:
                continue
            try:
                spec = self.eval(part.format_spec, env, g, fn)
                val = self.eval(part.value, env, g, fn)
            except (PyRaise, Undecided):
                continue
            hz = self.spec_hazard(val, spec)
            if hz is not None:
                return hz
        return None

    @staticmethod
    def spec_hazard(val, spec):
        if not isinstance(spec, str) or spec == "" or isinstance(val, Opaque):
            return None
        t = ops.pytype(val)
        code = spec[-1] if spec[-1].isalpha() or spec[-1] == "%" else ""
        if t in (bytes, bytearray):
            return TypeError(f"unsupported format string passed to {t.__name__}.__format__")
        if t is str and code not in ("", "s"):
            return ValueError(f"Unknown format code '{code}' for object of type 'str'")
        if t is int and code == "s":
            return ValueError("Unknown format code 's' for object of type 'int'")
        if t is float and code in ("x", "X", "d", "b", "o", "c", "s"):
            return ValueError(f"Unknown format code '{code}' for object of type 'float'")
        return None

    def exec_with(self, s, env, g, fn):
        # only context managers with a model (warnings.catch_warnings) or concrete native ones
        mgrs = []
        for item in s.items:
            cm = self.eval(item.context_expr, env, g, fn)
            enter = ops.with_enter(self, cm)
            if item.optional_vars is not None:
                self.assign(item.optional_vars, enter, env, g, fn)
            mgrs.append(cm)
        try:
            self.exec_block(s.body, env, g, fn)
        finally:
            for cm in reversed(mgrs):
                ops.with_exit(self, cm)

    def exec_try(self, s, env, g, fn):
        try:
            try:
                self.exec_block(s.body, env, g, fn)
            except PyRaise as pr:
                for h in s.handlers:
                    hcls = self.eval(h.type, env, g, fn) if h.type else BaseException
                    if isinstance(pr.exc, hcls):
                        if h.name:
                            env[h.name] = pr.exc
                        saved = env.get("__current_exc__")
                        env["__current_exc__"] = pr
                        try:
                            self.exec_block(h.body, env, g, fn)
                        finally:
                            env["__current_exc__"] = saved
                        break
                else:
                    raise
            else:
                self.exec_block(s.orelse, env, g, fn)
        except (PyRaise, _Return, _Break, _Continue):
            if s.finalbody:
                self.exec_block(s.finalbody, env, g, fn)
            raise
        else:
            if s.finalbody:
                self.exec_block(s.finalbody, env, g, fn)

    def loop_key(self, s, fn):
        if fn is None:
            return None
        tree = get_ast(fn)
        loops = [n for n in ast.walk(tree) if isinstance(n, (ast.For, ast.While))]
        loops.sort(key=lambda n: (n.lineno, n.col_offset))
        ids = [id(n) for n in loops]
        if id(s) not in ids:
            return None
        return (f"{fn.__module__}.{fn.__qualname__}", ids.index(id(s)))

    def exec_for(self, s, env, g, fn):
        it = self.eval(s.iter, env, g, fn)
        if isinstance(it, SRange):
            key = self.loop_key(s, fn)
            spec = self.loopspecs.get(key)
            if spec is not None:
                return spec.run(self, s, it, env, g, fn, key)
            return self.for_sym_range_unrolled(s, it, env, g, fn, key)
        items = ops.iterate(self, it)
        broke = False
        for x in items:
            self.assign(s.target, x, env, g, fn)
            try:
                self.exec_block(s.body, env, g, fn)
            except _Continue:
                continue
            except _Break:
                broke = True
                break
        if not broke:
            self.exec_block(s.orelse, env, g, fn)

    def for_sym_range_unrolled(self, s, rng, env, g, fn, key):
        e = self.e
        bound = self.limits["sym_for_unroll"]
        k = 0
        broke = False
        while True:
            cur = rng.start + k
            if not e.branch(cur < rng.stop):
                break
            if k >= bound:
                raise Undecided(f"loop {key}: symbolic trip count exceeds unrolling bound {bound} (needs an invariant)")
            self.assign(s.target, SInt(z3.simplify(cur)) if not z3.is_int_value(z3.simplify(cur)) else
                        z3.simplify(cur).as_long(), env, g, fn)
            k += 1
            try:
                self.exec_block(s.body, env, g, fn)
            except _Continue:
                continue
            except _Break:
                broke = True
                break
        if not broke:
            self.exec_block(s.orelse, env, g, fn)

    def exec_while(self, s, env, g, fn):
        key = self.loop_key(s, fn)
        spec = self.loopspecs.get(key)
        if spec is not None and getattr(spec, "opt_in", False) and not self.limits.get("inductive_loops"):
            spec = None  # inductive contracts are used by the harnesses that ask for them; elsewhere the loop is unrolled
        if spec is not None:
            return spec.run_while(self, s, env, g, fn, key)
        n = 0
        broke = False
        bound = self.limits["while_unroll"]
        while ops.truth(self, self.eval(s.test, env, g, fn)):
            n += 1
            if n > bound:
                raise Undecided(f"loop {key}: exceeded unwinding bound {bound} (needs an invariant)")
            try:
                self.exec_block(s.body, env, g, fn)
            except _Break:
                broke = True
                break
            except _Continue:
                continue
        if not broke:
            self.exec_block(s.orelse, env, g, fn)

    def delete(self, t, env, g, fn):
        if isinstance(t, ast.Name):
            del env[t.id]
        elif isinstance(t, ast.Subscript):
            o = self.eval(t.value, env, g, fn)
            k = self.eval(t.slice, env, g, fn)
            ops.delitem(self, o, k)
        elif isinstance(t, ast.Attribute):
            o = self.eval(t.value, env, g, fn)
            try:
                object.__delattr__(o, self.mangle(t.attr, fn))
            except AttributeError as ex:
                raise PyRaise(ex, implicit=True)
        else:
            raise Undecided("del target")

    def mangle(self, name, fn):
        if name.startswith("__") and not name.endswith("__") and fn is not None:
            cls = owner_class(fn)
            if cls is not None:
                return f"_{cls.__name__.lstrip('_')}{name}"
        return name

    def assign(self, t, v, env, g, fn):
        if isinstance(t, ast.Name):
            if t.id in env.get("__globals_decl__", ()):
                self.e.globals_overlay[(id(g), t.id)] = v
                return
            if t.id in env.get("__nonlocal_decl__", ()):
                p = env.parent
                while p is not None:
                    if t.id in p:
                        p[t.id] = v
                        return
                    p = p.parent
            env[t.id] = v
        elif isinstance(t, ast.Attribute):
            o = self.eval(t.value, env, g, fn)
            ops.setattr_(self, o, self.mangle(t.attr, fn), v)
        elif isinstance(t, (ast.Tuple, ast.List)):
            vs = ops.iterate(self, v)
            star = [i for i, tt in enumerate(t.elts) if isinstance(tt, ast.Starred)]
            if star:
                i = star[0]
                nafter = len(t.elts) - i - 1
                if len(vs) < len(t.elts) - 1:
                    raise PyRaise(ValueError("not enough values to unpack"), implicit=True)
                for tt, vv in zip(t.elts[:i], vs[:i]):
                    self.assign(tt, vv, env, g, fn)
                self.assign(t.elts[i].value, list(vs[i:len(vs) - nafter]), env, g, fn)
                for tt, vv in zip(t.elts[i + 1:], vs[len(vs) - nafter:]):
                    self.assign(tt, vv, env, g, fn)
                return
            if len(vs) != len(t.elts):
                raise PyRaise(ValueError(f"cannot unpack {len(vs)} values into {len(t.elts)}"), implicit=True)
            for tt, vv in zip(t.elts, vs):
                self.assign(tt, vv, env, g, fn)
        elif isinstance(t, ast.Subscript):
            o = self.eval(t.value, env, g, fn)
            if isinstance(t.slice, ast.Slice):
                sl = tuple(None if p is None else self.eval(p, env, g, fn)
                           for p in (t.slice.lower, t.slice.upper, t.slice.step))
                ops.setslice(self, o, sl, v)
            else:
                ops.setitem(self, o, self.eval(t.slice, env, g, fn), v)
        else:
            raise Undecided("assign target")

    # ------------------------------------------------------------------ expressions
    def lookup_global(self, name, g):
        ov = self.e.globals_overlay
        if (id(g), name) in ov:
            return ov[(id(g), name)]
        if name in g:
            return g[name]
        try:
            return getattr(builtins, name)
        except AttributeError:
            raise PyRaise(NameError(name), implicit=True)

    def eval(self, x, env, g, fn):
        e = self.e
        if isinstance(x, ast.Constant):
            return x.value
        if isinstance(x, ast.Name):
            found, v = env.lookup(x.id)
            if found:
                return v
            if x.id == "TYPE_CHECKING":
                return False
            return self.lookup_global(x.id, g)
        if isinstance(x, ast.Attribute):
            o = self.eval(x.value, env, g, fn)
            return ops.getattr_(self, o, self.mangle(x.attr, fn))
        if isinstance(x, ast.BinOp):
            return ops.binop(self, x.op, self.eval(x.left, env, g, fn), self.eval(x.right, env, g, fn))
        if isinstance(x, ast.UnaryOp):
            return ops.unaryop(self, x.op, self.eval(x.operand, env, g, fn))
        if isinstance(x, ast.BoolOp):
            isand = isinstance(x.op, ast.And)
            v = isand
            for sub in x.values:
                v = self.eval(sub, env, g, fn)
                t = ops.truth(self, v)
                if t != isand:
                    return v if not isinstance(v, SBool) else (not isand)
            return v if not isinstance(v, SBool) else isand
        if isinstance(x, ast.Compare):
            left = self.eval(x.left, env, g, fn)
            if len(x.ops) == 1:
                return ops.compare(self, x.ops[0], left, self.eval(x.comparators[0], env, g, fn))
            for op, rx in zip(x.ops, x.comparators):
                right = self.eval(rx, env, g, fn)
                if not ops.truth(self, ops.compare(self, op, left, right)):
                    return False
                left = right
            return True
        if isinstance(x, ast.IfExp):
            return self.eval(x.body if ops.truth(self, self.eval(x.test, env, g, fn)) else x.orelse, env, g, fn)
        if isinstance(x, ast.Tuple):
            return tuple(self.eval_elts(x.elts, env, g, fn))
        if isinstance(x, ast.List):
            return self.eval_elts(x.elts, env, g, fn)
        if isinstance(x, ast.Set):
            return set(self.eval_elts(x.elts, env, g, fn))
        if isinstance(x, ast.JoinedStr):
            return self.eval_fstring(x, env, g, fn)
        if isinstance(x, ast.Call):
            return self.eval_call(x, env, g, fn)
        if isinstance(x, ast.Subscript):
            o = self.eval(x.value, env, g, fn)
            if isinstance(x.slice, ast.Slice):
                sl = tuple(None if p is None else self.eval(p, env, g, fn)
                           for p in (x.slice.lower, x.slice.upper, x.slice.step))
                return ops.getslice(self, o, sl)
            return ops.getitem(self, o, self.eval(x.slice, env, g, fn))
        if isinstance(x, (ast.ListComp, ast.SetComp, ast.GeneratorExp, ast.DictComp)):
            return self.eval_comp(x, env, g, fn)
        if isinstance(x, ast.Dict):
            d = {}
            for k, v in zip(x.keys, x.values):
                if k is None:
                    d.update(self.eval(v, env, g, fn))
                else:
                    kk = self.eval(k, env, g, fn)
                    if is_sym(kk):
                        raise Undecided("symbolic dict key in literal")
                    d[kk] = self.eval(v, env, g, fn)
            return d
        if isinstance(x, ast.Yield):
            v = self.eval(x.value, env, g, fn) if x.value is not None else None
            found, ys = env.lookup("__yields__")
            ys.append(v)
            hook = getattr(self, "yield_hook", None)
            if hook is not None:
                return hook(self, v, fn)
            return None
        if isinstance(x, ast.YieldFrom):
            v = self.eval(x.value, env, g, fn)
            found, ys = env.lookup("__yields__")
            ys.extend(ops.iterate(self, v))
            return None
        if isinstance(x, ast.NamedExpr):
            v = self.eval(x.value, env, g, fn)
            self.assign(x.target, v, env, g, fn)
            return v
        if isinstance(x, ast.Lambda):
            return Closure(x, env, g, fn)
        if isinstance(x, ast.Starred):
            raise Undecided("starred expression")
        if isinstance(x, ast.Slice):
            return slice(*(None if p is None else self.eval(p, env, g, fn) for p in (x.lower, x.upper, x.step)))
        raise Undecided(f"expression {type(x).__name__}")

    def eval_elts(self, elts, env, g, fn):
        out = []
        for i in elts:
            if isinstance(i, ast.Starred):
                out.extend(ops.iterate(self, self.eval(i.value, env, g, fn)))
            else:
                out.append(self.eval(i, env, g, fn))
        return out

    def eval_fstring(self, x, env, g, fn):
        parts = []
        opaque = False
        symbolic_ints = False
        for v in x.values:
            if isinstance(v, ast.Constant):
                parts.append(str(v.value))
                continue
            try:
                val = self.eval(v.value, env, g, fn)
            except Undecided:
                val = Opaque("fmt")
            if isinstance(val, SInt) and v.conversion == -1 and v.format_spec is None:
                parts.append(val)
                symbolic_ints = True
                continue
            if type(val).__name__ == "SFmt" and v.conversion == -1 and v.format_spec is None:
                parts.extend(val.parts)
                symbolic_ints = True
                continue
            if not ops.deep_concrete(val):
                if v.format_spec is not None and v.conversion == -1:
                    try:
                        hz = self.spec_hazard(val, self.eval(v.format_spec, env, g, fn))
                    except (PyRaise, Undecided):
                        hz = None
                    if hz is not None:
                        raise PyRaise(hz, implicit=True, where="format")
                opaque = True
                continue
            try:
                conv = {-1: (lambda q: q), 115: str, 114: repr, 97: ascii}[v.conversion]
                spec = self.eval(v.format_spec, env, g, fn) if v.format_spec else ""
                if isinstance(spec, Opaque):
                    opaque = True
                    continue
                parts.append(format(conv(val), spec))
            except Exception:
                # formatting concrete repo objects natively may fail or be huge; message text is not modelled
                opaque = True
        if opaque:
            return Opaque("fstring")
        if symbolic_ints:
            from .core import SFmt
            return SFmt(parts)
        return "".join(parts)

    def eval_comp(self, x, env, g, fn):
        out = []
        isdict = isinstance(x, ast.DictComp)

        def rec(gi, env2):
            if gi == len(x.generators):
                if isdict:
                    out.append((self.eval(x.key, env2, g, fn), self.eval(x.value, env2, g, fn)))
                else:
                    out.append(self.eval(x.elt, env2, g, fn))
                return
            gen = x.generators[gi]
            for item in (first if gi == 0 else ops.iterate(self, self.eval(gen.iter, env2, g, fn))):
                env3 = Env(env2)
                self.assign(gen.target, item, env3, g, fn)
                if all(ops.truth(self, self.eval(c, env3, g, fn)) for c in gen.ifs):
                    rec(gi + 1, env3)

        # the outermost iterable is evaluated where the comprehension stands; a generator expression runs the rest
        # when it is consumed
        first = ops.iterate(self, self.eval(x.generators[0].iter, env, g, fn))
        if isinstance(x, ast.GeneratorExp):
            def run():
                rec(0, Env(env))
                return out
            return ops.LazyShot(run)
        rec(0, Env(env))
        if isdict:
            d = {}
            for k, v in out:
                if is_sym(k):
                    raise Undecided("symbolic key in dict comprehension")
                d[k] = v
            return d
        if isinstance(x, ast.SetComp):
            if any(is_sym(o) for o in out):
                raise Undecided("symbolic element in set comprehension")
            return set(out)
        return out

    def eval_call(self, x, env, g, fn):
        # zero-argument super()
        if isinstance(x.func, ast.Name) and x.func.id == "super" and not x.args and not env.lookup("super")[0]:
            cls = owner_class(fn)
            if cls is None:
                raise Undecided("super() outside a class")
            tree = get_ast(fn)
            selfname = (tree.args.posonlyargs + tree.args.args)[0].arg
            e = env
            while e is not None and selfname not in e:
                e = e.parent
            return SuperProxy(cls, e[selfname])
        f = self.eval(x.func, env, g, fn)
        args = []
        for a in x.args:
            if isinstance(a, ast.Starred):
                args.extend(ops.iterate(self, self.eval(a.value, env, g, fn)))
            else:
                args.append(self.eval(a, env, g, fn))
        kwargs = {}
        for k in x.keywords:
            if k.arg is None:
                kwargs.update(self.eval(k.value, env, g, fn))
            else:
                kwargs[k.arg] = self.eval(k.value, env, g, fn)
        return self.call(f, args, kwargs)
