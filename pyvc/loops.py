# pyvc.loops -- sidecar loop contracts (inductive invariants), keyed by (function, loop ordinal)
import inspect

import z3

from .core import SBool, SInt, Undecided, zbool
from . import ops, registry


class WhileInvariant:
    """Invariant-cut unrolling of a `while` loop: at the head of iteration k (k = 0, 1, ... concrete) the invariant
    inv(k, <locals by name>, <entry values as name0>) is an obligation; then the modified int locals are havocked and
    the invariant is assumed, so every VC is about one iteration only.  The loop is followed up to max_iter
    iterations; reaching the bound with the guard still satisfiable is UNDECIDED unless the harness restricted the
    inputs accordingly."""

    def __init__(self, inv, modifies, max_iter):
        self.inv, self.modifies, self.max_iter = inv, list(modifies), max_iter
        self.params = list(inspect.signature(inv).parameters)

    def _call_inv(self, I, env, entry, k):
        kwargs = {}
        for p in self.params:
            if p == "k":
                kwargs[p] = k
            elif p.endswith("0") and p[:-1] in entry:
                kwargs[p] = entry[p[:-1]]
            else:
                found, v = env.lookup(p)
                if not found:
                    raise Undecided(f"loop invariant refers to local {p!r} which does not exist (renamed?)")
                kwargs[p] = v
        r = I.call(self.inv, [], kwargs)
        return r

    def run_while(self, I, s, env, g, fn, key):
        e = I.e
        entry = {}
        for name in set(self.modifies) | {p[:-1] for p in self.params if p.endswith("0")}:
            found, v = env.lookup(name)
            if not found:
                raise Undecided(f"loop contract of {key}: local {name!r} does not exist (renamed?)")
            entry[name] = v
        k = 0
        while True:
            r = self._call_inv(I, env, entry, k)
            e.check(zbool(r) if isinstance(r, (SBool, bool)) else r, f"loop-invariant[{key[0].split('.')[-1]}#{key[1]}]")
            for name in self.modifies:
                env[name] = SInt(z3.Int(e.newname(f"hv!{name}")))
            r = self._call_inv(I, env, entry, k)
            e.assume(zbool(r))
            # locals that the invariant determines uniquely (counters) become concrete again
            for name in self.modifies:
                v = env[name]
                if isinstance(v, SInt) and e._check(2000) == z3.sat:
                    c = e.solver.model().eval(v.z, model_completion=True)
                    if z3.is_int_value(c) and not e.feasible(v.z != c):
                        env[name] = c.as_long()
            if not ops.truth(I, I.eval(s.test, env, g, fn)):
                break
            if k >= self.max_iter:
                raise Undecided(f"loop {key}: more than {self.max_iter} iterations possible")
            from .interp import _Break, _Continue
            try:
                I.exec_block(s.body, env, g, fn)
            except _Continue:
                pass
            except _Break:
                return
            k += 1
        I.exec_block(s.orelse, env, g, fn)


def while_invariant(real_fn, ordinal, modifies, max_iter):

    def deco(inv):
        f = getattr(real_fn, "__func__", real_fn)
        registry.LOOPSPECS[(f"{f.__module__}.{f.__qualname__}", ordinal)] = WhileInvariant(inv, modifies, max_iter)
        return inv

    return deco
