# pyvc.loops -- sidecar loop contracts (inductive invariants), keyed by (function, loop ordinal)
import inspect

import z3

from .core import SBool, SInt, Undecided, zbool
from . import ops, registry


class WhileInvariant:
    """Invariant-cut unrolling of a `while` loop: at the head of iteration k (k = 0, 1, ... concrete) the invariant
    inv(k, <locals by name>, <entry values as name0>) is an obligation; then the modified int locals are havocked and
    the invariant is assumed, so every VC is about one iteration only.  The loop is followed up to max_iter
    iterations; reaching the bound with the guard still satisfiable is UNDECIDED unless the harness restricted the
    inputs accordingly."""

    def __init__(self, inv, modifies, max_iter):
        self.inv, self.modifies, self.max_iter = inv, list(modifies), max_iter
        self.params = list(inspect.signature(inv).parameters)

    def _call_inv(self, I, env, entry, k):
        kwargs = {}
        for p in self.params:
            if p == "k":
                kwargs[p] = k
            elif p.endswith("0") and p[:-1] in entry:
                kwargs[p] = entry[p[:-1]]
            else:
                found, v = env.lookup(p)
                if not found:
                    raise Undecided(f"loop invariant refers to local {p!r} which does not exist (renamed?)")
                kwargs[p] = v
        r = I.call(self.inv, [], kwargs)
        return r

    def run_while(self, I, s, env, g, fn, key):
        e = I.e
        entry = {}
        for name in set(self.modifies) | {p[:-1] for p in self.params if p.endswith("0")}:
            found, v = env.lookup(name)
            if not found:
                raise Undecided(f"loop contract of {key}: local {name!r} does not exist (renamed?)")
            entry[name] = v
        k = 0
        while True:
            r = self._call_inv(I, env, entry, k)
            e.check(zbool(r) if isinstance(r, (SBool, bool)) else r, f"loop-invariant[{key[0].split('.')[-1]}#{key[1]}]")
            for name in self.modifies:
                env[name] = SInt(z3.Int(e.newname(f"hv!{name}")))
            r = self._call_inv(I, env, entry, k)
            e.assume(zbool(r))
            # locals that the invariant determines uniquely (counters) become concrete again
            for name in self.modifies:
                v = env[name]
                if isinstance(v, SInt) and e._check(2000) == z3.sat:
                    c = e.solver.model().eval(v.z, model_completion=True)
                    if z3.is_int_value(c) and not e.feasible(v.z != c):
                        env[name] = c.as_long()
            if not ops.truth(I, I.eval(s.test, env, g, fn)):
                break
            if k >= self.max_iter:
                raise Undecided(f"loop {key}: more than {self.max_iter} iterations possible")
            from .interp import _Break, _Continue
            try:
                I.exec_block(s.body, env, g, fn)
            except _Continue:
                pass
            except _Break:
                return
            k += 1
        I.exec_block(s.orelse, env, g, fn)


def while_invariant(real_fn, ordinal, modifies, max_iter):

    def deco(inv):
        f = getattr(real_fn, "__func__", real_fn)
        registry.LOOPSPECS[(f"{f.__module__}.{f.__qualname__}", ordinal)] = WhileInvariant(inv, modifies, max_iter)
        return inv

    return deco


class ForRangeInvariant:
    """`for i in range(<symbolic>)` by inductive invariant.  inv(i, <locals by name>, old_<x> ...) must hold for
    i = start (obligation), is assumed for an arbitrary i in [start, stop) after havocking the modified byte arrays,
    the real body is executed once and inv(i+1) is an obligation (that path ends there: PathEnd); the code after the
    loop continues from inv(stop) with the modified arrays havocked.  `modifies` are expressions over the locals
    (e.g. "self.coded_message") that evaluate to bytearray objects."""

    def __init__(self, inv, modifies):
        self.inv, self.modifies = inv, list(modifies)
        self.params = list(inspect.signature(inv).parameters)

    def _objs(self, I, env, g, fn):
        import ast
        return [I.eval(ast.parse(m, mode="eval").body, env, g, fn) for m in self.modifies]

    def _call(self, I, env, old, i):
        kwargs = {}
        for p in self.params:
            if p == "i":
                kwargs[p] = i
            elif p.startswith("old_") and p[4:] in old:
                kwargs[p] = old[p[4:]]
            else:
                found, v = env.lookup(p)
                if not found:
                    raise Undecided(f"loop invariant refers to local {p!r} which does not exist (renamed?)")
                kwargs[p] = v
        return zbool(I.call(self.inv, [], kwargs))

    def run(self, I, s, rng, env, g, fn, key):
        from .core import PathEnd, SBytes, BV8, INT
        e = I.e
        objs = self._objs(I, env, g, fn)
        old = {}
        for m, o in zip(self.modifies, objs):
            if not isinstance(o, SBytes):
                raise Undecided(f"loop contract of {key}: {m} is not a symbolic bytearray")
            old[m.split(".")[-1]] = SBytes(o.arr, o.off, o.ln, False)
        tag = f"{key[0].split('.')[-1]}#{key[1]}"
        e.check(self._call(I, env, old, ops.simp_int(rng.start)), f"loop-invariant-holds-on-entry[{tag}]")
        inductive = e.branch(z3.Bool(e.newname("inductive-step")))
        for o in objs:  # havoc
            o.arr = z3.Array(e.newname("hv"), INT, BV8)
            o.off = z3.IntVal(0)
            o.ln = z3.Int(e.newname("hvlen"))
            e.assume(o.ln >= 0)
        if inductive:
            i = z3.Int(e.newname("i"))
            e.assume(z3.And(rng.start <= i, i < rng.stop))
            e.assume(self._call(I, env, old, SInt(i)))
            I.assign(s.target, SInt(i), env, g, fn)
            I.exec_block(s.body, env, g, fn)
            e.check(self._call(I, env, old, SInt(i + 1)), f"loop-invariant-preserved[{tag}]")
            raise PathEnd()
        last = z3.If(rng.stop > rng.start, rng.stop, rng.start)
        e.assume(self._call(I, env, old, ops.simp_int(last)))
        I.exec_block(s.orelse, env, g, fn)


def for_invariant(real_fn, ordinal, modifies):

    def deco(inv):
        f = getattr(real_fn, "__func__", real_fn)
        registry.LOOPSPECS[(f"{f.__module__}.{f.__qualname__}", ordinal)] = ForRangeInvariant(inv, modifies)
        return inv

    return deco


class WhileInductive:
    """`while` loop by inductive invariant, for any number of iterations (no unrolling).  inv(<locals by name>,
    <entry values as name0>) is an obligation on entry; then the modified int locals are havocked and the invariant is
    assumed: from this arbitrary state the guard is evaluated - if it is false the code after the loop continues (the
    exit state satisfies invariant and negated guard) - and the real body is executed once: leaving through `break`
    continues after the loop, completing the iteration makes inv an obligation again and ends the path.  An optional
    variant(<locals>) must be non-negative when the body is entered and smaller after a completed iteration
    (termination)."""

    opt_in = True

    def __init__(self, inv, modifies, variant=None):
        self.inv, self.modifies, self.variant = inv, list(modifies), variant
        self.params = list(inspect.signature(inv).parameters)
        self.vparams = list(inspect.signature(variant).parameters) if variant is not None else []

    def _call(self, I, f, params, env, entry):
        kwargs = {}
        for p in params:
            if p.endswith("0") and p[:-1] in entry:
                kwargs[p] = entry[p[:-1]]
            else:
                found, v = env.lookup(p)
                if not found:
                    raise Undecided(f"loop contract refers to local {p!r} which does not exist (renamed?)")
                kwargs[p] = v
        return I.call(f, [], kwargs)

    def run_while(self, I, s, env, g, fn, key):
        from .core import PathEnd
        from .interp import _Break, _Continue
        e = I.e
        tag = f"{key[0].split('.')[-1]}#{key[1]}"
        entry = {}
        for name in set(self.modifies) | {p[:-1] for p in self.params if p.endswith("0")}:
            found, v = env.lookup(name)
            if not found:
                raise Undecided(f"loop contract of {key}: local {name!r} does not exist (renamed?)")
            entry[name] = v
        e.check(zbool(self._call(I, self.inv, self.params, env, entry)), f"loop-invariant-holds-on-entry[{tag}]")
        for name in self.modifies:
            env[name] = SInt(z3.Int(e.newname(f"hv!{name}")))
        e.assume(zbool(self._call(I, self.inv, self.params, env, entry)))
        if not ops.truth(I, I.eval(s.test, env, g, fn)):
            I.exec_block(s.orelse, env, g, fn)
            return
        before = None
        if self.variant is not None:
            before = self._call(I, self.variant, self.vparams, env, entry)
        try:
            I.exec_block(s.body, env, g, fn)
        except _Break:
            return
        except _Continue:
            pass
        e.check(zbool(self._call(I, self.inv, self.params, env, entry)), f"loop-invariant-preserved[{tag}]")
        if before is not None:
            after = self._call(I, self.variant, self.vparams, env, entry)
            from .core import zint
            e.check(z3.And(zint(before) >= 0, zint(after) < zint(before)), f"loop-variant-decreases[{tag}]")
        raise PathEnd()


def while_inductive(real_fn, ordinal, modifies, variant=None):

    def deco(inv):
        f = getattr(real_fn, "__func__", real_fn)
        registry.LOOPSPECS[(f"{f.__module__}.{f.__qualname__}", ordinal)] = WhileInductive(inv, modifies, variant)
        return inv

    return deco
