# pyvc.api -- the harness/contract API `H`, in two implementations:
#   SymH    : used when the harness is executed by the symbolic interpreter (inputs are z3 terms)
#   NativeH : used when the same harness text is executed by CPython on concrete inputs
#             (replay of counter-models against the real code; engine-vs-CPython cross-check)
# Harness and contract code is ordinary Python that only talks to the verifier through H.
import sys
import warnings as _warnings
from fractions import Fraction

import z3

from . import ops
from .core import (INT, BV8, Infeasible, Opaque, PyRaise, SBool, SBytes, SInt, SReal, SText, Undecided, is_sym,
                   zbool, zint, zreal)


class CheckFailed(Exception):
    pass


class HProxy:
    """what harness modules import as H; delegates to the active implementation"""

    def __init__(self):
        self._impl = None

    def _get(self):
        if self._impl is None:
            raise RuntimeError("H used outside a harness run")
        return self._impl

    # the method names below are the API; bodies only run in native mode
    def int(self, name, lo=None, hi=None):
        return self._get().int(name, lo, hi)

    def bool(self, name):
        return self._get().bool(name)

    def real(self, name):
        return self._get().real(name)

    def bytes(self, name, minlen=0, maxlen=None):
        return self._get().bytes(name, minlen, maxlen)

    def bytearray(self, name, minlen=0, maxlen=None):
        return self._get().bytearray(name, minlen, maxlen)

    def text(self, name):
        return self._get().text(name)

    def pick(self, name, options):
        return self._get().pick(name, options)

    def assume(self, c):
        return self._get().assume(c)

    def check(self, name, c, independent=False):
        """independent: after a (new) refutation of this obligation the path continues without assuming it, so that
        later obligations - tagged for other properties - are judged on their own"""
        return self._get().check(name, c, independent)

    def cover(self, name):
        return self._get().cover(name)

    def forall(self, lo, hi, f):
        return self._get().forall(lo, hi, f)

    def exists(self, lo, hi, f):
        return self._get().exists(lo, hi, f)

    def ite(self, c, a, b):
        return self._get().ite(c, a, b)

    def implies(self, a, b):
        return self._get().implies(a, b)

    def And(self, *cs):
        return self._get().And(*cs)

    def Or(self, *cs):
        return self._get().Or(*cs)

    def Not(self, c):
        return self._get().Not(c)

    def eq(self, a, b):
        return self._get().eq(a, b)

    def snapshot(self, b):
        return self._get().snapshot(b)

    def warnings(self, category=None):
        return self._get().warnings(category)

    def events(self, kind):
        return self._get().events(kind)

    def event(self, kind, *payload):
        return self._get().event(kind, *payload)

    def set_global(self, module, name, value):
        return self._get().set_global(module, name, value)

    def is_symbolic(self):
        return self._get().is_symbolic()

    def note(self, *a):
        return self._get().note(*a)

    def bounded(self, why):
        return self._get().bounded(why)

    def byte_at(self, b, j):
        return self._get().byte_at(b, j)

    def bit(self, x, k):
        return self._get().bit(x, k)

    def fresh_int(self, base="g"):
        return self._get().fresh_int(base)

    def div(self, a, b):
        return self._get().div(a, b)

    def decimal_digits(self, v, count):
        return self._get().decimal_digits(v, count)

    def float_bits(self, v, n):
        return self._get().float_bits(v, n)

    def is_integer(self, x):
        return self._get().is_integer(x)

    def consume(self, make_generator, body):
        return self._get().consume(make_generator, body)

    def float_of_bits(self, r, n):
        return self._get().float_of_bits(r, n)

    def value_of_kind(self, name, kind):
        return self._get().value_of_kind(name, kind)

    def mod(self, a, b):
        return self._get().mod(a, b)


H = HProxy()


# ======================================================================================= symbolic
class SymH:

    def __init__(self, interp, proxy=H):
        self.I = interp
        self.e = interp.e
        self.proxy = proxy
        self.proxy_module = None
        self._fn = {}
        self._fresh_counts = {}

    def is_symbolic(self):
        return True

    def _declare(self, name, v):
        if name in self.e.inputs:
            raise Undecided(f"harness input {name!r} declared twice")
        # a bytearray input may be mutated in place later: the model must report its value at declaration
        self.e.inputs[name] = v.copy() if isinstance(v, SBytes) else v
        return v

    def int(self, name, lo=None, hi=None):
        v = SInt(z3.Int(f"in!{name}"))
        if isinstance(lo, int) and isinstance(hi, int):
            v.rng = (lo, hi)
        if lo is not None:
            self.e.assume(v.z >= zint(lo))
        if hi is not None:
            self.e.assume(v.z <= zint(hi))
        return self._declare(name, v)

    def fresh_int(self, base="g"):
        """non-deterministic int chosen by an abstract component; recorded as an input (named by occurrence) so that a
        counter-model can be replayed natively"""
        n = self._fresh_counts.get(base, 0)
        self._fresh_counts[base] = n + 1
        name = f"fresh:{base}#{n}"
        v = SInt(z3.Int(f"in!{name}"))
        return self._declare(name, v)

    def bool(self, name):
        return self._declare(name, SBool(z3.Bool(f"in!{name}")))

    def real(self, name):
        return self._declare(name, SReal(z3.Real(f"in!{name}")))

    def _bytes(self, name, minlen, maxlen, mutable):
        ln = z3.Int(f"in!{name}!len")
        if isinstance(minlen, int) and maxlen is not None and isinstance(maxlen, int) and minlen == maxlen:
            ln = z3.IntVal(minlen)
        else:
            self.e.assume(ln >= zint(minlen))
            if maxlen is not None:
                self.e.assume(ln <= zint(maxlen))
        v = SBytes(z3.Array(f"in!{name}", INT, BV8), z3.IntVal(0), ln, mutable)
        return self._declare(name, v)

    def bytes(self, name, minlen=0, maxlen=None):
        return self._bytes(name, minlen, maxlen, False)

    def bytearray(self, name, minlen=0, maxlen=None):
        return self._bytes(name, minlen, maxlen, True)

    def text(self, name):
        v = SText(z3.Int(f"in!{name}!tid"), z3.Int(f"in!{name}!chars"))
        self.e.assume(v.ln >= 0)
        return self._declare(name, v)

    def pick(self, name, options):
        options = list(options)
        idx = SInt(z3.Int(f"in!{name}"))
        self._declare(name, idx)
        self.e.assume(z3.And(idx.z >= 0, idx.z < len(options)))
        return options[self.e.choose_value(idx.z)]

    def _z(self, c):
        if isinstance(c, (bool, SBool)):
            return zbool(c)
        if isinstance(c, SInt):
            return c.z != 0
        if isinstance(c, int):
            return z3.BoolVal(bool(c))
        if isinstance(c, SBytes):
            return c.ln != 0
        if c is None:
            return z3.BoolVal(False)
        if is_sym(c) or isinstance(c, Opaque):
            raise Undecided(f"not a condition: {c!r}")
        return z3.BoolVal(bool(c))

    def assume(self, c):
        z = z3.simplify(self._z(c))
        if z3.is_false(z):
            raise Infeasible()
        self.e.assume(z)
        if not self.e.feasible(z3.BoolVal(True)):
            raise Infeasible()

    def check(self, name, c, independent=False):
        self.e.check(self._z(c), name, independent=independent)

    def cover(self, name):
        self.e.covers.add(name)

    def _quant(self, lo, hi, f, universal):
        e = self.e
        lo_z, hi_z = zint(lo), zint(hi)
        lo_s, hi_s = z3.simplify(lo_z), z3.simplify(hi_z)
        if z3.is_int_value(lo_s) and z3.is_int_value(hi_s) and hi_s.as_long() - lo_s.as_long() <= 64:
            cs = [self._z(self.I.call(f, [k])) for k in range(lo_s.as_long(), hi_s.as_long())]
            if universal:
                return ops.simp_bool(z3.And(cs)) if cs else True
            return ops.simp_bool(z3.Or(cs)) if cs else False
        j = z3.Int(e.newname("q"))
        e.quantified = True
        # the body must not fork on j: evaluate it under a guard that forbids new decisions
        before = len(e.decisions), e.dpos
        body = self._z(self.I.call(f, [SInt(j)]))
        if (len(e.decisions), e.dpos) != before:
            raise Undecided("quantifier body forks on the bound variable (use H.ite/H.And/H.Or)")
        rng = z3.And(lo_z <= j, j < hi_z)
        if universal:
            return SBool(z3.ForAll([j], z3.Implies(rng, body)))
        return SBool(z3.Exists([j], z3.And(rng, body)))

    def forall(self, lo, hi, f):
        return self._quant(lo, hi, f, True)

    def exists(self, lo, hi, f):
        return self._quant(lo, hi, f, False)

    def ite(self, c, a, b):
        cz = z3.simplify(self._z(c))
        if z3.is_true(cz):
            return a
        if z3.is_false(cz):
            return b
        if isinstance(a, (SReal, float)) or isinstance(b, (SReal, float)):
            return SReal(z3.If(cz, zreal(a), zreal(b)))
        if isinstance(a, (bool, SBool)) and isinstance(b, (bool, SBool)):
            return ops.simp_bool(z3.If(cz, zbool(a), zbool(b)))
        if isinstance(a, (int, SInt)) and isinstance(b, (int, SInt)):
            return ops.simp_int(z3.If(cz, zint(a), zint(b)))
        if self.e.branch(cz):
            return a
        return b

    def implies(self, a, b):
        return ops.simp_bool(z3.Implies(self._z(a), self._z(b)))

    def And(self, *cs):
        if len(cs) == 1 and isinstance(cs[0], (list, tuple)):
            cs = cs[0]
        return ops.simp_bool(z3.And([self._z(c) for c in cs])) if cs else True

    def Or(self, *cs):
        if len(cs) == 1 and isinstance(cs[0], (list, tuple)):
            cs = cs[0]
        return ops.simp_bool(z3.Or([self._z(c) for c in cs])) if cs else False

    def Not(self, c):
        return ops.simp_bool(z3.Not(self._z(c)))

    def eq(self, a, b):
        """non-forking equality"""
        import ast
        r = ops.compare(self.I, ast.Eq(), a, b)
        return r

    def snapshot(self, b):
        if isinstance(b, SBytes):
            return SBytes(b.arr, b.off, b.ln, False)
        if isinstance(b, (bytes, bytearray)):
            return bytes(b)
        if isinstance(b, list):
            return list(b)
        if isinstance(b, dict):
            return dict(b)
        return b

    def warnings(self, category=None):
        total = z3.IntVal(0)
        for ev in self.e.events:
            if ev[0] == "warn" and (category is None or issubclass(ev[1], category)):
                total = total + (z3.If(ev[2], 1, 0) if len(ev) > 2 else 1)
        return ops.simp_int(total)

    def events(self, kind):
        return [ev[1:] for ev in self.e.events if ev[0] == kind]

    def event(self, kind, *payload):
        self.e.event(kind, *payload)

    def set_global(self, module, name, value):
        self.e.globals_overlay[(id(module.__dict__), name)] = value

    def note(self, *a):
        self.e.notes.append(a)

    def bounded(self, why):
        self.e.path_bounded = True

    def byte_at(self, b, j):
        """b[j] without bounds check / forking (for use under quantifiers); caller guards the range"""
        b = ops.as_sbytes(b)
        bv = b.at(zint(j))  # no integer alias here: j may be a bound variable
        return SInt(z3.BV2Int(bv, False), (bv, 8, False))

    def bit(self, x, k):
        """bit k (0 = LSB) of a non-negative int as 0/1, non-forking; k concrete or symbolic"""
        if isinstance(x, int) and isinstance(k, int):
            return (x >> k) & 1
        if isinstance(k, int):
            if isinstance(x, SInt) and x.bv is not None and not x.bv[2]:
                t, w = x.bv[0], x.bv[1]
                if k >= w:
                    return 0
                return ops.from_bv(z3.Extract(k, k, t), 1)
            return ops.simp_int((zint(x) / (1 << k)) % 2)
        # symbolic k: needs a bit-vector view
        if isinstance(x, SInt) and x.bv is not None and not x.bv[2]:
            t, w = x.bv[0], x.bv[1]
            kb = z3.Int2BV(zint(k), w)
            return ops.from_bv(z3.Extract(0, 0, z3.LShR(t, kb)), 1)
        raise Undecided("H.bit with symbolic position on unbounded int")

    def decimal_digits(self, v, count):
        """the `count` least significant decimal digits of v (least significant first), defined by witness: fresh
        d_k in 0..9 with v = sum d_k 10^k whenever 0 <= v < 10^count (the decimal expansion exists and is unique,
        so this is a definition, cached per term so that all users talk about the same digits)"""
        if isinstance(v, int):
            return [(v // 10**k) % 10 for k in range(count)]
        if not isinstance(v, SInt):
            v = SInt(zint(v))
        key = ("dec", v.z.get_id(), count)
        hit = self.e.bv_alias.get(key)
        if hit is None:
            ds = [SInt(z3.Int(self.e.newname(f"dig{k}")), rng=(0, 9)) for k in range(count)]
            total = z3.IntVal(0)
            for k, d in enumerate(ds):
                self.e.assume(z3.And(d.z >= 0, d.z <= 9))
                total = total + d.z * (10**k)
            self.e.assume(z3.Implies(z3.And(v.z >= 0, v.z < 10**count), v.z == total))
            hit = (ds, v)
            self.e.bv_alias[key] = hit
        return list(hit[0])

    def div(self, a, b):
        """floor division by a positive concrete divisor, non-forking"""
        return ops.simp_int(zint(a) / zint(b))

    def mod(self, a, b):
        return ops.simp_int(zint(a) % zint(b))

    def consume(self, make_generator, body):
        """for v in make_generator(): body(v) -- with the loop body run at each yield point (the interpreter executes
        generators eagerly, so the consumer is handed in as a hook)"""
        I = self.I
        prev = getattr(I, "yield_hook", None)

        def hook(interp, value, fn):
            interp.call(body, [value])
            return None

        I.yield_hook = hook
        try:
            I.call(make_generator, [])
        finally:
            I.yield_hook = prev

    def is_integer(self, x):
        if isinstance(x, (int, SInt)):
            return True
        if isinstance(x, float):
            return x.is_integer()
        return ops.simp_bool(z3.IsInt(zreal(x)))

    def float_bits(self, v, n):
        """IEEE-754 image of v as an n-bit unsigned integer (A-float: uninterpreted)"""
        return ops.from_bv(self.ieee_bits(v, n), n)

    def float_of_bits(self, r, n):
        if isinstance(r, SInt) and r.bv is not None and r.bv[1] == n:
            return self.ieee_value(r.bv[0], n)
        return self.ieee_value(ops.bvview(self.I, r, n, in_range=True), n)

    def value_of_kind(self, name, kind):
        """a symbolic value of a given dynamic type (for wrongly-typed-input obligations)"""
        if kind == "int":
            return self.int(name)
        if kind == "bool":
            return self.bool(name)
        if kind == "float":
            return self.real(name)
        if kind == "str":
            return self.text(name)
        if kind == "bytes":
            return self.bytes(name)
        if kind == "bytearray":
            return self.bytearray(name)
        if kind == "none":
            return None
        if kind == "list":
            return [self.int(name)]
        if kind == "dict":
            return {"x": self.int(name)}
        raise Undecided(f"value kind {kind}")

    # ---- A-float: IEEE images through uninterpreted functions
    def _uf(self, name, *sorts):
        if name not in self._fn:
            self._fn[name] = z3.Function(name, *sorts)
        return self._fn[name]

    def ieee_bits(self, v, n):
        x = zreal(v)
        enc = self._uf(f"ieee{n}", z3.RealSort(), z3.BitVecSort(n))
        dec = self._uf(f"unieee{n}", z3.BitVecSort(n), z3.RealSort())
        t = enc(x)
        if n == 64:
            self.e.assume(dec(t) == x)
        else:
            rnd = self._uf(f"fround{n}", z3.RealSort(), z3.RealSort())
            self.e.assume(dec(t) == rnd(x))
            self.e.assume(rnd(rnd(x)) == rnd(x))
        return t

    def ieee_value(self, piece, n):
        enc = self._uf(f"ieee{n}", z3.RealSort(), z3.BitVecSort(n))
        dec = self._uf(f"unieee{n}", z3.BitVecSort(n), z3.RealSort())
        x = dec(piece)
        # canonical (finite, non-NaN) image: re-encoding the decoded value gives the same bits
        self.e.assume(enc(x) == piece)
        if n != 64:
            rnd = self._uf(f"fround{n}", z3.RealSort(), z3.RealSort())
            self.e.assume(rnd(x) == x)
        return SReal(x)

    # ---- A-codec: text codecs through uninterpreted functions
    _ENC_IDS = {}

    def _enc_id(self, enc):
        enc = str(enc).lower().replace("_", "-")
        return self._ENC_IDS.setdefault(enc, len(self._ENC_IDS))

    def codec_encode(self, text, encoding="utf-8", errors="strict"):
        e = self.e
        if not isinstance(encoding, str):
            raise Undecided("symbolic codec name")
        eid = self._enc_id(encoding)
        encodable = self._uf("encodable", INT, INT, z3.BoolSort())
        if errors == "strict" and not e.branch(encodable(text.tid, eid)):
            raise PyRaise(UnicodeEncodeError(encoding, "", 0, 1, "unencodable (A-codec)"), implicit=True,
                          where="str.encode")
        arr = self._uf("enc_arr", INT, INT, z3.ArraySort(INT, BV8))(text.tid, eid)
        ln = self._uf("enc_len", INT, INT, INT)(text.tid, eid)
        name = encoding.lower()
        if name in ("iso-8859-1", "iso-8859-2", "cp1252", "latin-1", "ascii"):
            e.assume(ln == text.ln)
        elif name.startswith("utf-16"):
            e.assume(z3.And(ln >= 2 * text.ln, ln <= 4 * text.ln, ln % 2 == 0))
        else:
            e.assume(z3.And(ln >= text.ln, ln <= 4 * text.ln))
        b = SBytes(arr, z3.IntVal(0), ln, False)
        e.text_facts.setdefault(eid, []).append((text, b))
        return b

    def codec_decode(self, b, encoding="utf-8", errors="strict"):
        e = self.e
        if not isinstance(encoding, str):
            raise Undecided("symbolic codec name")
        if is_sym(errors):
            if e.branch(self._z(ops.compare(self.I, __import__("ast").Eq(), errors, "strict"))):
                errors = "strict"
            else:
                errors = "replace"
        eid = self._enc_id(encoding)
        # decoding is a function of (codec, bytes): the same bytes decode to the same text wherever they are decoded
        ASORT = z3.ArraySort(INT, BV8)
        arr = ops._rebase(b)
        dec_tid = self._uf("dec_tid", INT, ASORT, INT, INT)
        dec_len = self._uf("dec_chars", INT, ASORT, INT, INT)
        dec_ok = self._uf("decodable", INT, ASORT, INT, z3.BoolSort())
        decodable = dec_ok(eid, arr, b.ln)
        if errors == "strict":
            r = SText(dec_tid(eid, arr, b.ln), dec_len(eid, arr, b.ln))
        else:
            rep_tid = self._uf("dec_tid_replace", INT, ASORT, INT, INT)
            rep_len = self._uf("dec_chars_replace", INT, ASORT, INT, INT)
            r = SText(z3.If(decodable, dec_tid(eid, arr, b.ln), rep_tid(eid, arr, b.ln)),
                      z3.If(decodable, dec_len(eid, arr, b.ln), rep_len(eid, arr, b.ln)))
        e.assume(r.ln >= 0)
        n = b.concrete_len()
        for (t, tb) in e.text_facts.get(eid, []):
            if n is not None:
                same = z3.And(tb.ln == n, *[tb.at(z3.IntVal(k)) == b.at(z3.IntVal(k)) for k in range(n)])
            else:
                j = z3.Int(e.newname("j!dec"))
                e.quantified = True
                same = z3.And(tb.ln == b.ln,
                              z3.ForAll([j], z3.Implies(z3.And(0 <= j, j < b.ln), tb.at(j) == b.at(j))))
            e.assume(z3.Implies(same, z3.And(decodable, r.tid == t.tid, r.ln == t.ln)))
        if errors == "strict" and not e.branch(decodable):
            raise PyRaise(UnicodeDecodeError(encoding, b"", 0, 1, "undecodable (A-codec)"), implicit=True,
                          where="bytes.decode")
        return r

    def text_eq_const(self, a, b):
        return None


# ======================================================================================= native
class NativeH:
    """CPython execution of the same harness text on concrete inputs"""

    def __init__(self, inputs, stop_on_fail=False):
        self.inputs = dict(inputs)
        self.failed = []
        self.passed = []
        self.covers = set()
        self.unused = set(self.inputs)
        self._events = []
        self._set_globals = []
        self._fresh_counts = {}
        self.assume_failed = False

    def is_symbolic(self):
        return False

    def _get(self, name):
        if name not in self.inputs:
            raise KeyError(f"replay: input {name!r} not in the model")
        self.unused.discard(name)
        return self.inputs[name]

    def int(self, name, lo=None, hi=None):
        v = int(self._get(name))
        if (lo is not None and v < lo) or (hi is not None and v > hi):
            self.assume_failed = True
            raise AssumeFailed(name)
        return v

    def fresh_int(self, base="g"):
        n = self._fresh_counts.get(base, 0)
        self._fresh_counts[base] = n + 1
        name = f"fresh:{base}#{n}"
        if name not in self.inputs:
            raise AssumeFailed(f"no model value for {name}")
        self.unused.discard(name)
        return int(self.inputs[name])

    def bool(self, name):
        return bool(self._get(name))

    def real(self, name):
        v = self._get(name)
        if isinstance(v, (list, tuple)) and len(v) == 2:
            v = Fraction(v[0], v[1])
        return float(v)

    def bytes(self, name, minlen=0, maxlen=None):
        v = self._get(name)
        if isinstance(v, str):
            v = bytes.fromhex(v)
        return bytes(v)

    def bytearray(self, name, minlen=0, maxlen=None):
        v = self._get(name)
        if isinstance(v, str):
            v = bytes.fromhex(v)
        return bytearray(v)

    def text(self, name):
        v = self._get(name)
        if isinstance(v, str):
            return v
        # ("text", id, nchars): choose a witness string of that length
        n = max(0, min(int(v[2]), 64))
        alphabet = "aé€\U0001F600"
        return "".join(alphabet[(int(v[1]) + k) % len(alphabet)] for k in range(n))

    def pick(self, name, options):
        return list(options)[int(self._get(name))]

    def assume(self, c):
        if not c:
            self.assume_failed = True
            raise AssumeFailed("assume")

    def check(self, name, c, independent=False):
        (self.passed if c else self.failed).append(name)

    def cover(self, name):
        self.covers.add(name)

    def forall(self, lo, hi, f):
        return all(f(j) for j in range(lo, hi))

    def exists(self, lo, hi, f):
        return any(f(j) for j in range(lo, hi))

    def ite(self, c, a, b):
        return a if c else b

    def implies(self, a, b):
        return (not a) or bool(b)

    def And(self, *cs):
        if len(cs) == 1 and isinstance(cs[0], (list, tuple)):
            cs = cs[0]
        return all(cs)

    def Or(self, *cs):
        if len(cs) == 1 and isinstance(cs[0], (list, tuple)):
            cs = cs[0]
        return any(cs)

    def Not(self, c):
        return not c

    def eq(self, a, b):
        return a == b

    def snapshot(self, b):
        if isinstance(b, (bytes, bytearray)):
            return bytes(b)
        if isinstance(b, list):
            return list(b)
        if isinstance(b, dict):
            return dict(b)
        return b

    def warnings(self, category=None):
        return sum(1 for w in self._wlist if category is None or issubclass(w.category, category))

    def events(self, kind):
        return [ev[1:] for ev in self._events if ev[0] == kind]

    def event(self, kind, *payload):
        self._events.append((kind,) + payload)

    def set_global(self, module, name, value):
        self._set_globals.append((module, name, getattr(module, name)))
        setattr(module, name, value)

    def note(self, *a):
        import os
        if os.environ.get("PYVC_DEBUG"):
            print("NOTE", *a)

    def bounded(self, why):
        pass

    def byte_at(self, b, j):
        return b[j]

    def bit(self, x, k):
        return (x >> k) & 1

    def div(self, a, b):
        return a // b

    def decimal_digits(self, v, count):
        return [(v // 10**k) % 10 for k in range(count)]

    def is_integer(self, x):
        return float(x).is_integer()

    def consume(self, make_generator, body):
        gen = make_generator()
        if hasattr(gen, "__aiter__"):
            # an asynchronous generator that never really waits (file input): driven by hand
            import asyncio

            async def drive():
                async for v in gen:
                    body(v)
            asyncio.run(drive())
            return
        for v in gen:
            body(v)

    def float_bits(self, v, n):
        import struct
        return int.from_bytes(struct.pack(">f" if n == 32 else ">d", v), "big")

    def float_of_bits(self, r, n):
        import struct
        return struct.unpack(">f" if n == 32 else ">d", int(r).to_bytes(n // 8, "big"))[0]

    def value_of_kind(self, name, kind):
        if kind == "int":
            return self.int(name)
        if kind == "bool":
            return self.bool(name)
        if kind == "float":
            return self.real(name)
        if kind == "str":
            return self.text(name)
        if kind == "bytes":
            return self.bytes(name)
        if kind == "bytearray":
            return self.bytearray(name)
        if kind == "none":
            return None
        if kind == "list":
            return [self.int(name)]
        if kind == "dict":
            return {"x": self.int(name)}
        raise ValueError(kind)

    def mod(self, a, b):
        return a % b

    def run(self, fn, params):
        """returns dict(status=..., failed=[...], exception=...)"""
        prev = H._impl
        H._impl = self
        out = {"failed": self.failed, "passed": self.passed, "exception": None, "assume_failed": False}
        import logging
        logging.disable(logging.CRITICAL)
        try:
            with _warnings.catch_warnings(record=True) as wl:
                _warnings.simplefilter("always")
                self._wlist = wl
                try:
                    fn(**params)
                except AssumeFailed as ex:
                    out["assume_failed"] = True
                    out["assume_detail"] = str(ex)
                except Exception as ex:  # escaped the harness
                    import traceback
                    out["exception"] = {"class": type(ex).__name__, "module": type(ex).__module__, "text": str(ex)[:500],
                                        "traceback": traceback.format_exc()[-1500:]}
        finally:
            logging.disable(logging.NOTSET)
            for module, name, old in reversed(self._set_globals):
                setattr(module, name, old)
            H._impl = prev
        out["covers"] = sorted(self.covers)
        return out


class AssumeFailed(Exception):
    pass
