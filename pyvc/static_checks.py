# pyvc.static_checks -- syntactic (AST-level) frame obligations over the working tree, and evidence text helpers
import ast
import glob
import os

REPO = os.environ.get("PYVC_REPO", "/repo")  # PYVC_REPO: a scratch worktree (seed evaluation only)
STATIC = {}  # prop -> list of callables(tier) -> list of {name, ok, detail}

TRUSTED = {
    "A-bitstruct": "bitstruct.pack/unpack/unpack_from: assumed contract (big-endian bit packing, right padding to a byte; "
                   "'u' needs 0<=v<2^n, 'r' needs 8*len>=n, short input raises a foreign exception) - intersection of the "
                   "pure-Python and C back ends",
    "A-float": "float treated as mathematical real; IEEE images via uninterpreted ieee/unieee with "
               "unieee64(ieee64(x))=x, unieee32(ieee32(x))=fround32(x); NaN/inf/overflow outside the model",
    "A-codec": "str.encode/bytes.decode: uninterpreted codec with decode(encode(s))=s, UnicodeError iff not "
               "encodable/decodable; length facts only for fixed-width encodings",
    "A-lib": "can.Message is a record; logger/warnings are ghost events; re/zipfile/ElementTree/jinja2/asyncio outside the model",
    "A-compose": "meta-level composition of proved per-function obligations (written out in DESIGN.md) is not machine-checked",
}


def static(prop):

    def deco(f):
        STATIC.setdefault(prop, []).append(f)
        return f

    return deco


def run(prop, tier):
    out = []
    for f in STATIC.get(prop, []):
        out.extend(f(tier))
    return out


def revive_params(h, params):
    return params


def trusted_base(prop, hs):
    tags = set()
    for h in hs:
        for a in h.assumes:
            tags.add(a)
    out = ["pyvc symbolic interpreter (/verif/pyvc) as VC generator over the real AST", "z3 5.1.0", "cvc5 1.0.3 (fallback)"]
    out += [f"{t}: {TRUSTED[t]}" if t in TRUSTED else t for t in sorted(tags)]
    return out


def assumptions(prop, hs):
    out = []
    for h in hs:
        for a in h.assumes:
            s = f"{a}: {TRUSTED[a]}" if a in TRUSTED else a
            if s not in out:
                out.append(s)
        if h.strength == "B" and h.bound:
            s = f"bounded stand-in ({h.name}): {h.bound} - not counted as proved"
            if s not in out:
                out.append(s)
    return out


def explanation(prop, hs):
    parts = []
    for h in hs:
        parts.append(f"[{h.strength}] {h.name}: {h.doc.splitlines()[0] if h.doc else ''}")
    return " | ".join(parts)


def repo_py_files():
    return sorted(glob.glob(os.path.join(REPO, "odxtools", "**", "*.py"), recursive=True))
