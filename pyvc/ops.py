# pyvc.ops -- semantics of operators, attribute access, containers on mixed concrete/symbolic values
import ast
import enum
import functools
import inspect
import operator
import types

import z3

from .core import (INT, BV8, ForeignError, Infeasible, Opaque, PyRaise, SBool, SBytes, SInt, SNumText, SRange, SReal, SText,
                   Sym, Undecided, is_sym, zbool, zint, zreal)

NOT_HANDLED = object()
MISSING = object()


def _interp_types():
    from . import interp
    return interp


# ------------------------------------------------------------------ concreteness
_PRIMS = (int, float, str, bytes, bytearray, bool, type(None), enum.Enum, type, types.ModuleType, complex, range,
          slice, types.FunctionType, types.BuiltinFunctionType)


def concrete(v, _depth=0):
    """shallow: no symbolic value directly or inside builtin containers"""
    it = _interp_types()
    if isinstance(v, (Sym, Opaque, it.Closure, it.BoundMethod, it.SymMethod, it.SuperProxy)):
        return False
    if isinstance(v, (list, tuple, set, frozenset)) and _depth < 6:
        return all(concrete(x, _depth + 1) for x in v)
    if isinstance(v, dict) and _depth < 6:
        return all(concrete(x, _depth + 1) for x in v.values())
    return True


def all_concrete(vs):
    return all(concrete(v) for v in vs)


def deep_concrete(v, seen=None, depth=0):
    it = _interp_types()
    if isinstance(v, (Sym, Opaque, it.Closure, it.BoundMethod, it.SymMethod, it.SuperProxy)):
        return False
    if isinstance(v, _PRIMS):
        return True
    if seen is None:
        seen = set()
    if id(v) in seen or depth > 12:
        return True
    seen.add(id(v))
    if isinstance(v, (list, tuple, set, frozenset)):
        return all(deep_concrete(x, seen, depth + 1) for x in v)
    if isinstance(v, dict):
        return all(deep_concrete(x, seen, depth + 1) for x in v.values())
    d = getattr(v, "__dict__", None)
    if isinstance(d, dict) and (type(v).__module__ or "").split(".")[0] in it.INTERPRETED_PREFIXES:
        return all(deep_concrete(x, seen, depth + 1) for x in d.values())
    return True


def all_deep_concrete(vs):
    return all(deep_concrete(v) for v in vs)


def concretize_bytes(v):
    """real bytes/bytearray for an SBytes whose length and content are concrete, else None"""
    n = v.concrete_len()
    if n is None or n > 4096:
        return None
    out = bytearray()
    for k in range(n):
        b = z3.simplify(v.at(z3.IntVal(k)))
        if not z3.is_bv_value(b):
            return None
        out.append(b.as_long())
    return out if v.mutable else bytes(out)


def concretize_args(args, kwargs):
    """native calls get real bytes for fully concrete symbolic byte strings (copies: fine for pure functions)"""
    def conv(v):
        if isinstance(v, SBytes):
            c = concretize_bytes(v)
            return v if c is None else c
        return v
    return [conv(a) for a in args], {k: conv(v) for k, v in kwargs.items()}


def pytype(v):
    """representative Python type of a value"""
    if isinstance(v, SBool):
        return bool
    if isinstance(v, SInt):
        return int
    if isinstance(v, SReal):
        return float
    if isinstance(v, SBytes):
        return bytearray if v.mutable else bytes
    if isinstance(v, (SText, SNumText)):
        return str
    if isinstance(v, Opaque):
        return str
    return type(v)


def simp_int(z):
    z = z3.simplify(z)
    if z3.is_int_value(z):
        return z.as_long()
    return SInt(z)


def simp_bool(z):
    z = z3.simplify(z)
    if z3.is_true(z):
        return True
    if z3.is_false(z):
        return False
    return SBool(z)


# ------------------------------------------------------------------ truth
def truth(I, v):
    e = I.e
    if isinstance(v, bool):
        return v
    if isinstance(v, SBool):
        return e.branch(v.z)
    if isinstance(v, SInt):
        return e.branch(v.z != 0)
    if isinstance(v, SReal):
        return e.branch(v.z != 0)
    if isinstance(v, SBytes):
        return e.branch(v.ln != 0)
    if isinstance(v, SText):
        return e.branch(v.ln != 0)
    if isinstance(v, Opaque):
        raise Undecided("truth value of an unmodelled value")
    it = _interp_types()
    if isinstance(v, (it.Closure, it.BoundMethod)):
        return True
    ln = find_dunder(v, "__len__")
    if ln is not None:
        return truth(I, I.call(ln, [v]))
    return bool(v)


def find_dunder(o, name):
    """interpretable dunder method defined by the (repo) class of o, else None"""
    it = _interp_types()
    t = type(o)
    if (t.__module__ or "").split(".")[0] not in it.INTERPRETED_PREFIXES:
        return None
    try:
        a = inspect.getattr_static(t, name)
    except AttributeError:
        return None
    if isinstance(a, types.FunctionType) and it.is_interpretable(a) and not a.__code__.co_filename.startswith("<"):
        return a  # (generated dataclass methods have no source: they run natively on concrete operands)
    return None


# ------------------------------------------------------------------ arithmetic
_CONCRETE_BIN = {
    ast.Add: operator.add, ast.Sub: operator.sub, ast.Mult: operator.mul, ast.FloorDiv: operator.floordiv,
    ast.Mod: operator.mod, ast.LShift: operator.lshift, ast.RShift: operator.rshift, ast.BitAnd: operator.and_,
    ast.BitOr: operator.or_, ast.BitXor: operator.xor, ast.Div: operator.truediv, ast.Pow: operator.pow,
    ast.MatMult: operator.matmul
}


def is_bytes_like(v):
    return isinstance(v, (SBytes, bytes, bytearray))


def is_real_like(v):
    return isinstance(v, (SReal, float))


def is_num(v):
    return isinstance(v, (SInt, SBool, SReal, int, float)) and not isinstance(v, Opaque)


POW2U = z3.Function("pow2u", z3.IntSort(), z3.IntSort())
WIDE_POW2 = True


def pow2(I, k):
    """2**k for symbolic k (0 <= k <= 136 required)"""
    e = I.e
    if isinstance(k, int):
        return 1 << k
    kz = zint(k)
    if WIDE_POW2 and e.feasible(kz > 136):
        # an amount without upper bound (the bit length of a byte field of any length): 2**k as an uninterpreted
        # function of k with the facts used (positive, at least 1, strictly above k) - weaker than the truth, hence
        # sound for proofs; the value remembers its shape for the idioms built on it ((1 << n) - 1).to_bytes(n // 8))
        if e.branch(kz < 0, likely=False):
            raise PyRaise(ValueError("negative shift count"), implicit=True)
        p = POW2U(kz)
        e.assume(z3.And(p >= 1, p > kz))
        return SInt(p, shape=("pow2", kz))
    if not e.branch(z3.And(kz >= 0, kz <= 136)):
        if e.branch(kz < 0):
            raise PyRaise(ValueError("negative shift count"), implicit=True)
        raise Undecided("shift amount above 136")
    # multi-way decision over the feasible shift amounts: the result is concrete on each path
    return 1 << e.choose_value(kz, max_values=140)


def floordiv(I, a, b):
    e = I.e
    za, zb = zint(a), zint(b)
    if isinstance(b, int):
        if b == 0:
            raise PyRaise(ZeroDivisionError("integer division or modulo by zero"), implicit=True)
        return simp_int(za / zb) if b > 0 else simp_int((-za) / z3.IntVal(-b))
    if not e.branch(zb != 0):
        raise PyRaise(ZeroDivisionError("integer division or modulo by zero"), implicit=True)
    if e.branch(zb > 0):
        return simp_int(za / zb)
    return simp_int((-za) / (-zb))


def rng_of(v):
    """known concrete interval of an int value, or None"""
    if isinstance(v, bool):
        return (int(v), int(v))
    if isinstance(v, int):
        return (v, v)
    if isinstance(v, SInt):
        if v.rng is not None:
            return v.rng
        if v.bv is not None and not v.bv[2]:
            return (0, (1 << v.bv[1]) - 1)
    if isinstance(v, SBool):
        return (0, 1)
    return None


def _with_rng(r, rng):
    if isinstance(r, SInt) and rng is not None and r.rng is None:
        r.rng = rng
    return r


def binop(I, op, a, b):
    r = _binop(I, op, a, b)
    if isinstance(r, SInt) and r.rng is None:
        ra, rb = rng_of(a), rng_of(b)
        t = type(op)
        if ra is not None and rb is not None:
            if t is ast.Add:
                r.rng = (ra[0] + rb[0], ra[1] + rb[1])
            elif t is ast.Sub:
                r.rng = (ra[0] - rb[1], ra[1] - rb[0])
            elif t is ast.Mult:
                c = [ra[0] * rb[0], ra[0] * rb[1], ra[1] * rb[0], ra[1] * rb[1]]
                r.rng = (min(c), max(c))
            elif t is ast.LShift and rb[0] == rb[1] and rb[0] >= 0:
                r.rng = (ra[0] << rb[0], ra[1] << rb[0])
            elif t is ast.RShift and rb[0] == rb[1] and rb[0] >= 0:
                r.rng = (ra[0] >> rb[0], ra[1] >> rb[0])
            elif t is ast.FloorDiv and rb[0] == rb[1] and rb[0] > 0:
                r.rng = (ra[0] // rb[0], ra[1] // rb[0])
        if r.rng is None and isinstance(b, int) and not isinstance(b, bool):
            if t is ast.Mod and b > 0:
                r.rng = (0, b - 1)
            elif t is ast.BitAnd and b >= 0:
                r.rng = (0, b)
        if r.rng is None and t is ast.BitAnd and isinstance(a, int) and not isinstance(a, bool) and a >= 0:
            r.rng = (0, a)
        if r.rng is None and t in (ast.BitOr, ast.BitXor) and ra is not None and rb is not None and \
                ra[0] >= 0 and rb[0] >= 0:
            r.rng = (0, (1 << max(ra[1].bit_length(), rb[1].bit_length())) - 1)
    return r


def _binop(I, op, a, b):
    e = I.e
    if not is_sym(a) and not is_sym(b) and not isinstance(a, Opaque) and not isinstance(b, Opaque):
        # concrete operands: CPython on the real values
        if type(a).__module__.split(".")[0] in _interp_types().INTERPRETED_PREFIXES:
            dn = {ast.Add: "__add__", ast.Sub: "__sub__", ast.Mult: "__mul__", ast.BitOr: "__or__"}.get(type(op))
            f = dn and find_dunder(a, dn)
            if f is not None:
                return I.call(f, [a, b])
        if isinstance(a, (list, tuple)) and not concrete(a) or isinstance(b, (list, tuple)) and not concrete(b):
            pass
        try:
            return _CONCRETE_BIN[type(op)](a, b)
        except Exception as ex:
            raise PyRaise(ex, implicit=True)
    if isinstance(a, Opaque) or isinstance(b, Opaque):
        if isinstance(op, (ast.Add, ast.Mod)):
            return Opaque("text")
        raise Undecided("arithmetic on unmodelled value")
    if is_bytes_like(a) or is_bytes_like(b):
        return bytes_binop(I, op, a, b)
    if isinstance(a, (list, tuple)) or isinstance(b, (list, tuple)):
        if isinstance(op, ast.Add) and type(a) is type(b):
            return a + b
        if isinstance(op, ast.Mult):
            seq, k = (a, b) if isinstance(a, (list, tuple)) else (b, a)
            if isinstance(k, int):
                return seq * k
            # [x] * n with symbolic n: multi-way decision over the feasible values
            kz = zint(k)
            return seq * e.choose_value(z3.If(kz < 0, 0, kz))
        raise Undecided("sequence op with symbolic operand")
    if isinstance(a, (str, SText)) or isinstance(b, (str, SText)):
        raise Undecided("string op with symbolic operand")
    if not is_num(a) or not is_num(b):
        raise PyRaise(TypeError(f"unsupported operand types {pytype(a).__name__}, {pytype(b).__name__}"),
                      implicit=True)
    if is_real_like(a) or is_real_like(b) or isinstance(op, ast.Div):
        return real_binop(I, op, a, b)
    t = type(op)
    if t is ast.Add:
        return simp_int(zint(a) + zint(b))
    if t is ast.Sub:
        if isinstance(a, SInt) and a.shape is not None and a.shape[0] == "pow2" and isinstance(b, int) and b == 1:
            return SInt(a.z - 1, shape=("pow2m1", a.shape[1]))
        return simp_int(zint(a) - zint(b))
    if t is ast.Mult:
        return simp_int(zint(a) * zint(b))
    if t is ast.FloorDiv:
        return floordiv(I, a, b)
    if t is ast.Mod:
        if isinstance(b, int) and not isinstance(b, bool) and b > 0:
            return simp_int(zint(a) % b)
        q = floordiv(I, a, b)
        return simp_int(zint(a) - zint(b) * zint(q))
    if t is ast.LShift:
        p = pow2(I, b)
        if isinstance(p, SInt) and p.shape is not None and isinstance(a, int) and a == 1:
            return p
        r = simp_int(zint(a) * zint(p))
        if isinstance(r, SInt) and isinstance(b, int):
            r.lowzeros = b
        return r
    if t is ast.RShift:
        if isinstance(b, int) and isinstance(a, SInt) and a.bv is not None and not a.bv[2]:
            tbv, w = a.bv[0], a.bv[1]
            if b >= w:
                return 0
            if b == 0:
                return a
            return from_bv(z3.simplify(z3.Extract(w - 1, b, tbv)), w - b)
        p = pow2(I, b)
        return floordiv(I, a, p)
    if t in (ast.BitAnd, ast.BitOr, ast.BitXor):
        return bitop(I, op, a, b)
    if t is ast.Pow:
        if isinstance(b, int) and 0 <= b <= 8:
            r = z3.IntVal(1)
            for _ in range(b):
                r = r * zint(a)
            return simp_int(r)
        if isinstance(a, int) and a == 2:
            return pow2(I, b)
        raise Undecided("symbolic exponent")
    raise Undecided(f"binary operator {t.__name__}")


def real_binop(I, op, a, b):
    e = I.e
    za, zb = zreal(a), zreal(b)
    t = type(op)
    if t is ast.Add:
        return SReal(za + zb)
    if t is ast.Sub:
        return SReal(za - zb)
    if t is ast.Mult:
        return SReal(za * zb)
    if t is ast.Div:
        if not is_sym(b):
            if b == 0:
                raise PyRaise(ZeroDivisionError("division by zero"), implicit=True)
        elif not e.branch(zb != 0):
            raise PyRaise(ZeroDivisionError("division by zero"), implicit=True)
        return SReal(za / zb)
    if t is ast.Pow:
        if isinstance(b, int) and 0 <= b <= 8:
            r = z3.RealVal(1)
            for _ in range(b):
                r = r * za
            return SReal(r)
        raise Undecided("real power")
    if t is ast.FloorDiv:
        if not e.branch(zb != 0):
            raise PyRaise(ZeroDivisionError("float floor division by zero"), implicit=True)
        return SReal(z3.ToReal(z3.ToInt(za / zb)))
    raise Undecided(f"real operator {t.__name__}")


def width_of(v):
    """width of a known non-negative bounded value, else None"""
    if isinstance(v, bool):
        return 1
    if isinstance(v, int):
        return None if v < 0 else max(v.bit_length(), 1)
    if isinstance(v, SInt) and v.bv is not None and not v.bv[2]:
        return v.bv[1]
    return None


def bvview(I, v, w, in_range=False):
    """w-bit two's complement view of an int value (in_range: 0 <= v < 2^w is already on the path)"""
    if isinstance(v, bool):
        v = int(v)
    if isinstance(v, int):
        return z3.BitVecVal(v % (1 << w), w)
    if isinstance(v, SBool):
        v = SInt(zint(v), rng=(0, 1))
    if v.bv is not None:
        t, vw, signed = v.bv
        if vw == w:
            return t
        if vw > w:
            return z3.Extract(w - 1, 0, t)
        return z3.SignExt(w - vw, t) if signed else z3.ZeroExt(w - vw, t)
    # unbounded int: tie a fresh bit-vector to v mod 2^w (avoids Int2BV inside terms)
    e = I.e
    known = in_range or (v.rng is not None and 0 <= v.rng[0] and v.rng[1] < (1 << w))
    vz = v.z if known else v.z % (1 << w)
    if w > WIDE:
        # a value the path condition determines uniquely is used as a constant (the uninterpreted bridge below
        # would lose its bits)
        u = e.unique_value(vz)
        if u is not None:
            return z3.BitVecVal(u % (1 << w), w)
    if w > WIDE:
        b2i, i2b = bridge(w)
        x = i2b(vz)
        e.assume(z3.And(b2i(x) == vz, (vz == 0) == (x == 0),
                        (vz >= (1 << (w - 1))) == (z3.Extract(w - 1, w - 1, x) == 1)))
    else:
        x = z3.BitVec(e.newname("bvv"), w)
        e.assume(z3.BV2Int(x, False) == vz)
    if known:
        v.bv = (x, w, False)  # cache: the same Python object is often reused (e.g. [pad] * n)
    return x


WIDE = 16  # bit-vectors wider than this are bridged to int by uninterpreted functions (see from_bv)
_BRIDGE = {}


def bridge(w):
    if w not in _BRIDGE:
        _BRIDGE[w] = (z3.Function(f"b2i{w}", z3.BitVecSort(w), z3.IntSort()),
                      z3.Function(f"i2b{w}", z3.IntSort(), z3.BitVecSort(w)))
    return _BRIDGE[w]


CUR_ENGINE = None  # set by the runner for the path being executed (one path at a time per process)


def from_bv(bv, w):
    """int value of an unsigned bit-vector.  Byte-sized vectors get an integer alias variable (cached per term) so
    that arithmetic over message bytes is plain linear integer arithmetic for the solver."""
    e = CUR_ENGINE
    if e is not None and w <= 8 and not z3.is_bv_value(bv):
        key = bv.get_id()
        hit = e.bv_alias.get(key)
        if hit is None:
            x = z3.Int(e.newname("byte"))
            e.assume(z3.And(x >= 0, x < (1 << w), x == z3.BV2Int(bv, False)))
            hit = (x, bv)  # keep bv alive so that the id stays unique
            e.bv_alias[key] = hit
        return SInt(hit[0], (bv, w, False), rng=(0, (1 << w) - 1))
    if z3.is_bv_value(bv):
        return SInt(z3.IntVal(bv.as_long()), (bv, w, False), rng=(bv.as_long(), bv.as_long()))
    if e is not None and w > WIDE:
        # wide vectors: the int<->bit-vector bridge is a pair of uninterpreted functions with the axioms
        # instantiated at the terms that occur (range, inverse, zero and sign-bit links).  This is weaker than the
        # real bv2int (so every proof remains valid) and keeps wide bv2int terms out of the solver.
        key = ("b2i", bv.get_id())
        hit = e.bv_alias.get(key)
        if hit is None:
            b2i, i2b = bridge(w)
            z = b2i(bv)
            e.assume(z3.And(z >= 0, z < (1 << w), i2b(z) == bv, (z == 0) == (bv == 0),
                            (z >= (1 << (w - 1))) == (z3.Extract(w - 1, w - 1, bv) == 1)))
            hit = (z, bv)
            e.bv_alias[key] = hit
        return SInt(hit[0], (bv, w, False), rng=(0, (1 << w) - 1))
    return SInt(z3.BV2Int(bv, False), (bv, w, False), rng=(0, (1 << w) - 1))


def bitop(I, op, a, b):
    wa, wb = width_of(a), width_of(b)
    if isinstance(op, ast.BitAnd):
        # mask 2^k-1 on an int without bit-vector view: python & == mod
        for x, y in ((a, b), (b, a)):
            if isinstance(x, int) and not isinstance(x, bool) and x >= 0 and (x & (x + 1)) == 0 and isinstance(
                    y, SInt) and y.bv is None:
                return simp_int(zint(y) % (x + 1))
        ws = [w for w in (wa, wb) if w is not None]
        if not ws:
            raise Undecided("& of two unbounded/negative ints")
        w = min(ws)  # the result fits in the width of any non-negative bounded operand
        for x, y in ((a, b), (b, a)):
            # contiguous low mask on a vector: plain extraction
            if isinstance(x, int) and (x & (x + 1)) == 0 and isinstance(y, SInt) and y.bv is not None:
                k = x.bit_length()
                if k == 0:
                    return 0
                if k >= y.bv[1] and not y.bv[2]:
                    return y
                return from_bv(z3.simplify(z3.Extract(k - 1, 0, y.bv[0])), k)
        return from_bv(z3.simplify(bvview(I, a, w) & bvview(I, b, w)), w)
    if wa is None or wb is None:
        # x | (y << s) with 0 <= x < 2^s provable on this path: the operands share no bit, so | and ^ are +
        for x, y in ((a, b), (b, a)):
            s = y.lowzeros if isinstance(y, SInt) else ((y & -y).bit_length() - 1 if isinstance(y, int) and y > 0 else 0)
            if isinstance(y, int) and y == 0:
                return x
            if s > 0 and isinstance(y, (SInt, int)):
                xz, yz = zint(x), zint(y)
                rx, ry = rng_of(x), rng_of(y)
                if rx is not None and ry is not None and rx[0] >= 0 and rx[1] < (1 << s) and ry[0] >= 0:
                    return simp_int(xz + yz)
                if not I.e.feasible(z3.Not(z3.And(xz >= 0, xz < (1 << s), yz >= 0))):
                    return simp_int(xz + yz)
        raise Undecided("| or ^ with negative/unbounded operand")
    w = max(wa, wb)
    f = {ast.BitOr: operator.or_, ast.BitXor: operator.xor}[type(op)]
    return from_bv(f(bvview(I, a, w), bvview(I, b, w)), w)


def unaryop(I, op, v):
    if isinstance(op, ast.Not):
        return not truth(I, v)
    if not is_sym(v):
        try:
            return {ast.USub: operator.neg, ast.Invert: operator.invert, ast.UAdd: operator.pos}[type(op)](v)
        except Exception as ex:
            raise PyRaise(ex, implicit=True)
    if isinstance(op, ast.USub):
        if isinstance(v, SReal):
            return SReal(-v.z)
        return simp_int(-zint(v))
    if isinstance(op, ast.UAdd):
        return v
    if isinstance(op, ast.Invert):
        if isinstance(v, SInt) and v.bv is not None and not v.bv[2]:
            t, w = v.bv[0], v.bv[1]
            return SInt(-v.z - 1, (~z3.ZeroExt(1, t), w + 1, True))  # signed (w+1)-bit view
        return simp_int(-zint(v) - 1)
    raise Undecided("unary operator")


# ------------------------------------------------------------------ bytes
def as_sbytes(v):
    if isinstance(v, SBytes):
        return v
    if isinstance(v, (bytes, bytearray)):
        return SBytes.const(v, isinstance(v, bytearray))
    raise Undecided(f"not bytes: {v!r}")


def bytes_concat(a, b):
    a, b = as_sbytes(a), as_sbytes(b)
    la, lb = a.concrete_len(), b.concrete_len()
    if lb == 0:
        return a.copy()
    if la == 0:
        return SBytes(b.arr, b.off, b.ln, a.mutable)
    j = z3.Int("j!cat")
    arr = z3.Lambda([j], z3.If(j < a.ln, a.at(j), b.at(j - a.ln)))
    return SBytes(arr, z3.IntVal(0), z3.simplify(a.ln + b.ln), a.mutable)


def bytes_binop(I, op, a, b):
    e = I.e
    if isinstance(op, ast.Add):
        if not is_bytes_like(a) or not is_bytes_like(b):
            raise PyRaise(TypeError("can't concat"), implicit=True)
        return bytes_concat(a, b)
    if isinstance(op, ast.Mult):
        seq, k = (a, b) if is_bytes_like(a) else (b, a)
        if isinstance(seq, (bytes, bytearray)) and len(seq) == 1:
            kz = zint(k)
            return SBytes(z3.K(INT, z3.BitVecVal(seq[0], 8)), z3.IntVal(0), z3.simplify(z3.If(kz > 0, kz, 0)),
                          isinstance(seq, bytearray))
        if isinstance(seq, (bytes, bytearray)) and len(seq) == 0:
            return type(seq)()
    if isinstance(op, ast.Mod):
        return Opaque("bytes-format")
    raise Undecided("bytes operator")


def norm_index(I, i, ln, exc=IndexError):
    """python index normalisation with bounds check (forks IndexError)"""
    e = I.e
    iz = zint(i)
    ok = z3.And(-ln <= iz, iz < ln)
    if not e.branch(ok, likely=True):
        raise PyRaise(exc("index out of range"), implicit=True)
    r = z3.simplify(z3.If(iz < 0, iz + ln, iz))
    if z3.is_app_of(r, z3.Z3_OP_ITE):
        # decide the sign once so that equal positions become syntactically equal terms
        if not e.feasible(iz < 0):
            return z3.simplify(iz)
        if not e.feasible(iz >= 0):
            return z3.simplify(iz + ln)
    return r


def clamp_slice(lo, hi, ln):
    """python slice clamping for step 1; lo/hi may be None; returns (lo2, hi2) with 0<=lo2<=hi2'<=ln"""
    if lo is None:
        lo2 = z3.IntVal(0)
    else:
        lz = zint(lo)
        lz = z3.If(lz < 0, lz + ln, lz)
        lo2 = z3.If(lz < 0, 0, z3.If(lz > ln, ln, lz))
    if hi is None:
        hi2 = ln
    else:
        hz = zint(hi)
        hz = z3.If(hz < 0, hz + ln, hz)
        hi2 = z3.If(hz < 0, 0, z3.If(hz > ln, ln, hz))
    return z3.simplify(lo2), z3.simplify(hi2)


def getslice(I, o, sl):
    lo, hi, step = sl
    if isinstance(o, (bytes, bytearray)) and (is_sym(lo) or is_sym(hi)):
        o = SBytes.const(o, isinstance(o, bytearray))
    if isinstance(o, SBytes):
        if step is not None and step != 1:
            if step == -1 and lo is None and hi is None:
                j = z3.Int("j!rev")
                n = o.concrete_len()
                if n is not None:
                    arr = z3.K(INT, z3.BitVecVal(0, 8))
                    for k in range(n):
                        arr = z3.Store(arr, k, o.at(z3.IntVal(n - 1 - k)))
                    return SBytes(arr, z3.IntVal(0), z3.IntVal(n), o.mutable)
                return SBytes(z3.Lambda([j], o.at(o.ln - 1 - j)), z3.IntVal(0), o.ln, o.mutable)
            raise Undecided("bytes slice step")
        lo2, hi2 = clamp_slice(lo, hi, o.ln)
        ln = z3.simplify(z3.If(hi2 > lo2, hi2 - lo2, 0))
        if not z3.is_int_value(ln) and lo is not None and hi is not None:
            # common case x[a:a+k] with the slice provably inside the object: concrete length k
            lz, hz = zint(lo), zint(hi)
            d = z3.simplify(hz - lz)
            if z3.is_int_value(d) and d.as_long() >= 0:
                if not I.e.feasible(z3.Not(z3.And(lz >= 0, hz <= o.ln))):
                    return SBytes(o.arr, z3.simplify(o.off + lz), d, o.mutable)
        return SBytes(o.arr, z3.simplify(o.off + lo2), ln, o.mutable)
    if is_sym(lo) or is_sym(hi) or is_sym(step):
        if isinstance(o, (list, tuple)) and step is None:
            n = len(o)
            lo2, hi2 = clamp_slice(lo, hi, z3.IntVal(n))
            for a in range(n + 1):
                if I.e.branch(lo2 == a):
                    for b in range(n + 1):
                        if I.e.branch(hi2 == b):
                            return o[a:b]
            raise Infeasible()
        raise Undecided("symbolic slice of concrete container")
    f = find_dunder(o, "__getitem__")
    if f is not None:
        return I.call(f, [o, slice(lo, hi, step)])
    try:
        return o[lo:hi:step]
    except Exception as ex:
        raise PyRaise(ex, implicit=True)


def setslice(I, o, sl, v):
    lo, hi, step = sl
    if step is not None:
        raise Undecided("slice assignment with step")
    if isinstance(o, SBytes) and o.mutable:
        v = as_sbytes(v)
        lo2, hi2 = clamp_slice(lo, hi, o.ln)
        hi2 = z3.simplify(z3.If(hi2 < lo2, lo2, hi2))
        j = z3.Int("j!sa")
        arr = z3.Lambda([j], z3.If(j < lo2, o.at(j), z3.If(j < lo2 + v.ln, v.at(j - lo2), o.at(j - v.ln + hi2 - lo2))))
        newlen = z3.simplify(lo2 + v.ln + (o.ln - hi2))
        # the lambda reads the old array; build it before updating in place
        o.arr, o.off, o.ln = arr, z3.IntVal(0), newlen
        return
    if isinstance(o, bytearray) and (is_sym(v) or is_sym(lo) or is_sym(hi)):
        raise Undecided("concrete bytearray slice assignment with symbolic operands (use H.bytearray)")
    if is_sym(lo) or is_sym(hi):
        raise Undecided("symbolic slice assignment")
    try:
        o[lo:hi] = v
    except Exception as ex:
        raise PyRaise(ex, implicit=True)


def bytes_store(I, o, i, v):
    e = I.e
    iz = norm_index(I, i, o.ln)
    if isinstance(v, bool):
        v = int(v)
    if isinstance(v, int):
        if not 0 <= v < 256:
            raise PyRaise(ValueError("byte must be in range(0, 256)"), implicit=True)
        bvv = z3.BitVecVal(v, 8)
    elif isinstance(v, SInt):
        if v.bv is not None and not v.bv[2] and v.bv[1] <= 8:
            bvv = bvview(I, v, 8)
        else:
            if not e.branch(z3.And(0 <= v.z, v.z < 256)):
                raise PyRaise(ValueError("byte must be in range(0, 256)"), implicit=True)
            bvv = bvview(I, v, 8)
    else:
        raise PyRaise(TypeError("an integer is required"), implicit=True)
    o.arr, o.off = z3.Store(_rebase(o), iz, bvv), z3.IntVal(0)


def _rebase(o):
    off = z3.simplify(o.off)
    if z3.is_int_value(off) and off.as_long() == 0:
        return o.arr
    j = z3.Int("j!rb")
    return z3.Lambda([j], z3.Select(o.arr, off + j))


# ------------------------------------------------------------------ items
def hash_key(k):
    """the key as a hash-based container sees it: unhashable values raise TypeError (bytearray, list, dict, set), an
    immutable byte string with concrete content is its bytes value"""
    if isinstance(k, SBytes):
        if k.mutable:
            raise PyRaise(TypeError("unhashable type: 'bytearray'"), implicit=True)
        c = concretize_bytes(k)
        return k if c is None else c
    if isinstance(k, (bytearray, list, dict, set)):
        raise PyRaise(TypeError(f"unhashable type: '{type(k).__name__}'"), implicit=True)
    return k


def getitem(I, o, k):
    e = I.e
    if type(o) is dict:
        k = hash_key(k)
    if isinstance(o, (bytes, bytearray)) and is_sym(k):
        o = SBytes.const(o, isinstance(o, bytearray))
    if isinstance(o, SBytes):
        if isinstance(k, slice):
            return getslice(I, o, (k.start, k.stop, k.step))
        iz = norm_index(I, k, o.ln)
        return from_bv(z3.simplify(o.at(iz)), 8)
    if isinstance(o, Opaque):
        return Opaque("item")
    f = find_dunder(o, "__getitem__")
    if f is not None:
        return I.call(f, [o, k])
    if isinstance(k, (SInt, SBool)) and isinstance(o, (list, tuple)):
        kz = zint(k)
        n = len(o)
        for idx in range(n):
            if e.branch(z3.Or(kz == idx, kz == idx - n)):
                return o[idx]
        raise PyRaise(IndexError("list index out of range"), implicit=True)
    if is_sym(k) and isinstance(o, dict):
        for kk in list(o.keys()):
            if truth(I, compare(I, ast.Eq(), k, kk)):
                return o[kk]
        raise PyRaise(KeyError("symbolic key"), implicit=True)
    if is_sym(k):
        raise Undecided(f"symbolic index into {type(o).__name__}")
    if isinstance(o, dict) and any(is_sym(x) for x in o.keys()):
        for kk in list(o.keys()):
            if truth(I, compare(I, ast.Eq(), k, kk)):
                return o[kk]
        raise PyRaise(KeyError(k), implicit=True)
    try:
        return o[k]
    except Exception as ex:
        raise PyRaise(ex, implicit=True)


def setitem(I, o, k, v):
    e = I.e
    if type(o) is dict:
        k = hash_key(k)
    if isinstance(o, SBytes):
        if not o.mutable:
            raise PyRaise(TypeError("'bytes' object does not support item assignment"), implicit=True)
        return bytes_store(I, o, k, v)
    if isinstance(o, bytearray) and (is_sym(k) or is_sym(v)):
        raise Undecided("concrete bytearray with symbolic store (use H.bytearray)")
    f = find_dunder(o, "__setitem__")
    if f is not None:
        return I.call(f, [o, k, v])
    if isinstance(k, SInt) and isinstance(o, list):
        n = len(o)
        for idx in range(n):
            if e.branch(z3.Or(k.z == idx, k.z == idx - n)):
                o[idx] = v
                return
        raise PyRaise(IndexError("list assignment index out of range"), implicit=True)
    if is_sym(k) and isinstance(o, dict):
        for kk in list(o.keys()):
            if truth(I, compare(I, ast.Eq(), k, kk)):
                o[kk] = v
                return
        # a key different from all present ones (decided by the comparisons above): the symbolic value itself is
        # stored as the key (identity-hashed); look-ups compare against it explicitly
        if isinstance(k, (SInt, SBool)) or (isinstance(k, SBytes) and not k.mutable):
            try:
                dict.__setitem__(o, k, v)
                return
            except TypeError:
                pass
        raise Undecided("insertion of a fresh symbolic key into a dict")
    if is_sym(k):
        raise Undecided("symbolic key")
    try:
        o[k] = v
    except Exception as ex:
        raise PyRaise(ex, implicit=True)


def delitem(I, o, k):
    if is_sym(k):
        raise Undecided("del with symbolic key")
    f = find_dunder(o, "__delitem__")
    if f is not None:
        return I.call(f, [o, k])
    try:
        del o[k]
    except Exception as ex:
        raise PyRaise(ex, implicit=True)


class OneShot:
    """an iterator object: yields its items once (iter(x), generator objects handed around as values)"""

    def __init__(self, items):
        self.items = list(items)

    def take_all(self):
        r, self.items = self.items, []
        return r


class LazyShot(OneShot):
    """a generator expression: its body runs when it is first consumed - with the values the free variables have
    then (late binding) -, and it yields its items once.  (Run as a whole at the first consumption: a consumer that
    stops early, next(g), still sees the side effects of the complete run - none in the code under contract.)"""

    def __init__(self, thunk):
        self.thunk = thunk
        self._items = None

    @property
    def items(self):
        if self.thunk is not None:
            t, self.thunk = self.thunk, None
            self._items = list(t())
        return self._items

    @items.setter
    def items(self, v):
        self.thunk = None
        self._items = v


def iterate(I, it):
    """finite list of the elements of an iterable value"""
    if isinstance(it, (list, tuple)):
        return list(it)
    if isinstance(it, OneShot):
        return it.take_all()
    if isinstance(it, SBytes):
        n = it.concrete_len()
        if n is None:
            # multi-way decision over the feasible lengths (each explored); needs a bound from the harness
            n = I.e.choose_value(it.ln, max_values=70)
        return [from_bv(z3.simplify(it.at(z3.IntVal(k))), 8) for k in range(n)]
    if isinstance(it, SRange):
        raise Undecided("iteration over symbolic range")
    if is_sym(it) or isinstance(it, Opaque):
        raise PyRaise(TypeError(f"'{pytype(it).__name__}' object is not iterable"), implicit=True)
    f = find_dunder(it, "__iter__")
    if f is not None:
        return iterate(I, I.call(f, [it]))
    try:
        return list(it)
    except TypeError as ex:
        raise PyRaise(ex, implicit=True)


# ------------------------------------------------------------------ comparison
_CMP = {ast.Eq: operator.eq, ast.NotEq: operator.ne, ast.Lt: operator.lt, ast.LtE: operator.le, ast.Gt: operator.gt,
        ast.GtE: operator.ge}


def seq_eq(I, a, b):
    """symbolic equality of two equal-shaped containers -> z3 Bool or python bool"""
    if len(a) != len(b):
        return False
    cs = []
    for x, y in zip(a, b):
        r = compare(I, ast.Eq(), x, y)
        if r is False:
            return False
        if r is True:
            continue
        cs.append(zbool(r))
    if not cs:
        return True
    return SBool(z3.And(cs))


def compare(I, op, a, b):
    e = I.e
    t = type(op)
    if t in (ast.Is, ast.IsNot):
        if isinstance(a, SBool) and isinstance(b, bool) or isinstance(b, SBool) and isinstance(a, bool):
            r = simp_bool(zbool(a) == zbool(b))
            return r if t is ast.Is else (not r if isinstance(r, bool) else SBool(z3.Not(r.z)))
        r = a is b
        return r if t is ast.Is else not r
    if t in (ast.In, ast.NotIn):
        r = contains(I, b, a)
        if t is ast.In:
            return r
        return (not r) if isinstance(r, bool) else SBool(z3.Not(r.z))
    if isinstance(a, Opaque) or isinstance(b, Opaque):
        raise Undecided("comparison with unmodelled value")
    if not is_sym(a) and not is_sym(b):
        if t in (ast.Eq, ast.NotEq):
            if isinstance(a, (list, tuple)) and isinstance(b, (list, tuple)) and type(a) is type(b) and (
                    not concrete(a) or not concrete(b)):
                r = seq_eq(I, a, b)
                return r if t is ast.Eq else ((not r) if isinstance(r, bool) else SBool(z3.Not(r.z)))
            if isinstance(a, dict) and isinstance(b, dict) and (not concrete(a) or not concrete(b)):
                if set(a.keys()) != set(b.keys()):
                    r = False
                else:
                    ks = list(a.keys())
                    r = seq_eq(I, [a[k] for k in ks], [b[k] for k in ks])
                return r if t is ast.Eq else ((not r) if isinstance(r, bool) else SBool(z3.Not(r.z)))
            f = find_dunder(a, "__eq__")
            if f is not None:
                r = I.call(f, [a, b])
                if r is NotImplemented:
                    r = a is b
                return r if t is ast.Eq else not truth(I, r)
        try:
            return _CMP[t](a, b)
        except Exception as ex:
            raise PyRaise(ex, implicit=True)
    # at least one symbolic operand
    if a is None or b is None:
        if t is ast.Eq:
            return False
        if t is ast.NotEq:
            return True
        raise PyRaise(TypeError("ordering comparison with None"), implicit=True)
    if isinstance(a, SText) or isinstance(b, SText):
        if t not in (ast.Eq, ast.NotEq):
            raise Undecided("text ordering")
        if isinstance(a, SText) and isinstance(b, SText):
            r = simp_bool(a.tid == b.tid)
        else:
            r = I.api.text_eq_const(a, b) if I.api is not None else None
            if r is None:
                raise Undecided("symbolic text compared with constant")
        return r if t is ast.Eq else ((not r) if isinstance(r, bool) else SBool(z3.Not(r.z)))
    if (isinstance(a, SNumText) or isinstance(b, SNumText)) and t in (ast.Eq, ast.NotEq):
        # str(n) of a symbolic integer compared with a text: equal iff the text is the canonical decimal numeral of n
        x, y = (a, b) if isinstance(a, SNumText) else (b, a)
        r = None
        if isinstance(x.num, SInt) and isinstance(y, str):
            try:
                r = simp_bool(x.num.z == int(y)) if str(int(y)) == y else False
            except ValueError:
                r = False
        elif isinstance(x.num, SInt) and isinstance(y, SNumText) and isinstance(y.num, SInt):
            r = simp_bool(x.num.z == y.num.z)
        elif not isinstance(y, (str, SNumText, SText)):
            r = False
        if r is None:
            raise Undecided("text of a symbolic number compared with text")
        return r if t is ast.Eq else ((not r) if isinstance(r, bool) else SBool(z3.Not(r.z)))
    if is_bytes_like(a) or is_bytes_like(b):
        if not (is_bytes_like(a) and is_bytes_like(b)):
            if t is ast.Eq:
                return False
            if t is ast.NotEq:
                return True
            raise PyRaise(TypeError("bytes ordering with non-bytes"), implicit=True)
        return bytes_compare(I, t, as_sbytes(a), as_sbytes(b))
    if isinstance(a, (SBool, bool)) and isinstance(b, (SBool, bool)) and t in (ast.Eq, ast.NotEq):
        r = simp_bool(zbool(a) == zbool(b))
        return r if t is ast.Eq else ((not r) if isinstance(r, bool) else SBool(z3.Not(r.z)))
    if not is_num(a) or not is_num(b):
        if t is ast.Eq:
            return False
        if t is ast.NotEq:
            return True
        raise PyRaise(TypeError(f"'{t.__name__}' not supported between {pytype(a).__name__} and {pytype(b).__name__}"),
                      implicit=True)
    # x.bit_length() compared with a constant: |x| vs 2^n
    for x, y, flip in ((a, b, False), (b, a, True)):
        if isinstance(x, SInt) and x.bitlen_of is not None and isinstance(y, int) and not isinstance(y, bool):
            ax = z3.If(x.bitlen_of < 0, -x.bitlen_of, x.bitlen_of)
            tt = t
            if flip:
                tt = {ast.Lt: ast.Gt, ast.Gt: ast.Lt, ast.LtE: ast.GtE, ast.GtE: ast.LtE}.get(t, t)
            n = y
            if tt is ast.Gt:  # bl > n  <=>  |x| >= 2^n
                return simp_bool(ax >= (1 << n)) if n >= 0 else True
            if tt is ast.LtE:
                return simp_bool(ax < (1 << n)) if n >= 0 else False
            if tt is ast.GtE:  # bl >= n <=> |x| >= 2^(n-1)
                return simp_bool(ax >= (1 << (n - 1))) if n >= 1 else True
            if tt is ast.Lt:
                return simp_bool(ax < (1 << (n - 1))) if n >= 1 else False
    if t in (ast.Eq, ast.NotEq) and isinstance(a, SInt) and isinstance(b, SInt) and a.bv is not None and \
            b.bv is not None and not a.bv[2] and not b.bv[2] and a.bv[1] == b.bv[1]:
        r = simp_bool(a.bv[0] == b.bv[0])  # same-width unsigned views: compare the bit-vectors themselves
        return r if t is ast.Eq else ((not r) if isinstance(r, bool) else SBool(z3.Not(r.z)))
    if is_real_like(a) or is_real_like(b):
        za, zb = zreal(a), zreal(b)
    else:
        za, zb = zint(a), zint(b)
    tbl = {ast.Eq: za == zb, ast.NotEq: za != zb, ast.Lt: za < zb, ast.LtE: za <= zb, ast.Gt: za > zb,
           ast.GtE: za >= zb}
    return simp_bool(tbl[t])


def bytes_compare(I, t, a, b):
    la, lb = a.concrete_len(), b.concrete_len()
    if t in (ast.Eq, ast.NotEq):
        if la is not None or lb is not None:
            n = la if la is not None else lb
            eq = z3.And(a.ln == b.ln, *[a.at(z3.IntVal(k)) == b.at(z3.IntVal(k)) for k in range(n)])
        else:
            j = z3.Int(I.e.newname("j!eq"))
            I.e.quantified = True
            eq = z3.And(a.ln == b.ln, z3.ForAll([j], z3.Implies(z3.And(0 <= j, j < a.ln), a.at(j) == b.at(j))))
        r = simp_bool(eq)
        if t is ast.Eq:
            return r
        return (not r) if isinstance(r, bool) else SBool(z3.Not(r.z))
    # lexicographic ordering: only for concrete equal lengths
    if la is not None and lb is not None:
        n = min(la, lb)
        # a < b  <=>  exists first differing index k with a[k] < b[k], or prefix-equal and la < lb
        lt_terms = []
        prefix = z3.BoolVal(True)
        for k in range(n):
            ak, bk = a.at(z3.IntVal(k)), b.at(z3.IntVal(k))
            lt_terms.append(z3.And(prefix, z3.ULT(ak, bk)))
            prefix = z3.And(prefix, ak == bk)
        lt = z3.Or(lt_terms + [z3.And(prefix, z3.BoolVal(la < lb))])
        eq = z3.And(prefix, z3.BoolVal(la == lb))
        res = {ast.Lt: lt, ast.LtE: z3.Or(lt, eq), ast.Gt: z3.Not(z3.Or(lt, eq)), ast.GtE: z3.Not(lt)}[t]
        return simp_bool(res)
    raise Undecided("bytes ordering with symbolic length")


def contains(I, container, x):
    if isinstance(container, Opaque) or isinstance(x, Opaque):
        raise Undecided("membership with unmodelled value")
    if hasattr(type(container), "__pyvc_method__"):
        return container.__pyvc_method__(I, "__contains__", [x], {})
    if type(container) in (dict, set, frozenset):
        x = hash_key(x)
    if isinstance(container, (list, tuple, set, frozenset)) or isinstance(container, (dict,)) or hasattr(
            container, "keys") and isinstance(container, dict):
        elems = list(container)
        if not is_sym(x) and all(not is_sym(y) for y in elems) and concrete(x):
            f = find_dunder(container, "__contains__")
            if f is not None:
                return I.call(f, [container, x])
            try:
                return x in container
            except Exception as ex:
                raise PyRaise(ex, implicit=True)
        cs = []
        for y in elems:
            if y is x:
                return True
            r = compare(I, ast.Eq(), x, y)
            if r is True:
                return True
            if r is False:
                continue
            cs.append(zbool(r))
        return simp_bool(z3.Or(cs)) if cs else False
    if is_bytes_like(container):
        raise Undecided("membership in bytes")
    if is_sym(x):
        raise Undecided(f"symbolic membership in {type(container).__name__}")
    f = find_dunder(container, "__contains__")
    if f is not None:
        return I.call(f, [container, x])
    try:
        return x in container
    except Exception as ex:
        raise PyRaise(ex, implicit=True)


# ------------------------------------------------------------------ attributes
def getattr_(I, o, name):
    it = _interp_types()
    if isinstance(o, Sym):
        return it.SymMethod(o, name)
    if isinstance(o, Opaque):
        return it.SymMethod(o, name)
    if isinstance(o, it.SuperProxy):
        mro = type(o.obj).__mro__ if not isinstance(o.obj, type) else o.obj.__mro__
        idx = mro.index(o.cls)
        for k in mro[idx + 1:]:
            if name in k.__dict__:
                a = k.__dict__[name]
                if isinstance(a, types.FunctionType):
                    return it.BoundMethod(a, o.obj)
                if isinstance(a, property):
                    return I.call(a.fget, [o.obj])
                if isinstance(a, (staticmethod,)):
                    return a.__func__
                if isinstance(a, classmethod):
                    return it.BoundMethod(a.__func__, type(o.obj))
                return getattr(super(o.cls, o.obj), name)
        raise PyRaise(AttributeError(name), implicit=True)
    if isinstance(o, it.Closure):
        if name == "__name__":
            return o.__name__
        raise PyRaise(AttributeError(name), implicit=True)
    if isinstance(o, types.ModuleType):
        ov = I.e.globals_overlay
        if (id(o.__dict__), name) in ov:
            return ov[(id(o.__dict__), name)]
        if I.api is not None and o is I.api.proxy_module:
            pass
        try:
            return getattr(o, name)
        except AttributeError as ex:
            raise PyRaise(ex, implicit=True)
    if isinstance(o, type):
        try:
            a = inspect.getattr_static(o, name)
        except AttributeError:
            try:
                return getattr(o, name)
            except AttributeError as ex:
                raise PyRaise(ex, implicit=True)
        if isinstance(a, staticmethod):
            return a.__func__
        if isinstance(a, classmethod):
            return it.BoundMethod(a.__func__, o)
        if isinstance(a, types.FunctionType) or isinstance(a, property):
            return a
        return getattr(o, name)
    if isinstance(o, (int, float, str, bytes, bytearray, list, tuple, dict, set, frozenset, type(None), bool)) and \
            type(o).__module__ == "builtins":
        try:
            return getattr(o, name)
        except AttributeError as ex:
            raise PyRaise(ex, implicit=True)
    t = type(o)
    if hasattr(t, "__pyvc_method__"):
        return it.BoundMethod(functools.partial(_pyvc_method, o, name), None) if False else _PyvcMethod(o, name)
    try:
        a = inspect.getattr_static(t, name)
    except AttributeError:
        a = MISSING
    if isinstance(a, property):
        if a.fget is not None and it.is_interpretable(a.fget):
            return I.call(a.fget, [o])
        return _native_getattr(o, name)
    if isinstance(a, functools.cached_property):
        d = o.__dict__
        if name in d:
            return d[name]
        v = I.call(a.func, [o])
        d[name] = v
        return v
    d = getattr(o, "__dict__", None)
    if isinstance(d, dict) and name in d:
        return d[name]
    if a is MISSING:
        ga = find_dunder(o, "__getattr__")
        if ga is not None:
            return I.call(ga, [o, name])
        return _native_getattr(o, name)
    if isinstance(a, types.FunctionType):
        if it.is_interpretable(a) or a in I.models or a in I.contracts:
            return it.BoundMethod(a, o)
        return getattr(o, name)
    if isinstance(a, staticmethod):
        return a.__func__
    if isinstance(a, classmethod):
        return it.BoundMethod(a.__func__, t)
    return _native_getattr(o, name)


class _PyvcMethod:

    def __init__(self, obj, name):
        self.obj, self.name = obj, name


def _native_getattr(o, name):
    try:
        return getattr(o, name)
    except AttributeError as ex:
        raise PyRaise(ex, implicit=True)


def setattr_(I, o, name, v):
    if isinstance(o, types.ModuleType):
        I.e.globals_overlay[(id(o.__dict__), name)] = v
        return
    if isinstance(o, (Sym, Opaque)):
        raise PyRaise(AttributeError(name), implicit=True)
    f = find_dunder(o, "__setattr__")
    if f is not None:
        return I.call(f, [o, name, v])
    try:
        a = inspect.getattr_static(type(o), name)
    except AttributeError:
        a = MISSING
    if isinstance(a, property) and a.fset is not None:
        return I.call(a.fset, [o, v])
    try:
        object.__setattr__(o, name, v)
    except Exception as ex:
        raise PyRaise(ex, implicit=True)


# ------------------------------------------------------------------ with
def with_enter(I, cm):
    if isinstance(cm, (Sym, Opaque)):
        raise Undecided("with on symbolic value")
    import warnings
    if isinstance(cm, warnings.catch_warnings):
        return None
    if hasattr(cm, "__pyvc_enter__"):
        return cm.__pyvc_enter__(I)
    raise Undecided(f"context manager {type(cm).__name__}")


def with_exit(I, cm):
    if hasattr(cm, "__pyvc_exit__"):
        cm.__pyvc_exit__(I)


# ------------------------------------------------------------------ methods on symbolic values / containers
def symmethod(I, o, name, args, kwargs):
    e = I.e
    if isinstance(o, Opaque):
        return Opaque(f"{o.why}.{name}")
    if isinstance(o, (SInt, SBool)):
        if isinstance(o, SBool):
            o = SInt(zint(o))
        if name == "bit_length":
            k = e.newint("bl")
            a = z3.If(o.z < 0, -o.z, o.z)
            k.bitlen_of = o.z
            # k is tied to |o| lazily: 2^(k-1) <= |o| < 2^k for k in 0..136
            e.assume(z3.Or([z3.And(k.z == 0, a == 0)] +
                           [z3.And(k.z == i, a >= (1 << (i - 1)), a < (1 << i)) for i in range(1, 137)] +
                           [z3.And(k.z == 137, a >= (1 << 136))]))
            return k
        if name == "to_bytes":
            L = args[0] if args else kwargs.get("length", 1)
            order = args[1] if len(args) > 1 else kwargs.get("byteorder", "big")
            signed = kwargs.get("signed", False)
            if signed:
                raise Undecided("to_bytes signed")
            if o.shape is not None and o.shape[0] == "pow2m1" and is_sym(L) and \
                    not e.feasible(z3.Not(z3.And(zint(L) >= 0, 8 * zint(L) == o.shape[1]))):
                # (2**(8*L) - 1).to_bytes(L, ...): L bytes of 0xff
                return SBytes(z3.K(INT, z3.BitVecVal(255, 8)), z3.IntVal(0), zint(L))
            if is_sym(L):
                L = e.choose_value(zint(L), max_values=70)
            if not e.branch(z3.And(o.z >= 0, o.z < (1 << (8 * L)))):
                raise PyRaise(OverflowError("int too big to convert"), implicit=True)
            if L == 0:
                return b""
            bv = bvview(I, o, 8 * L)
            arr = z3.K(INT, z3.BitVecVal(0, 8))
            for i in range(L):
                hi = 8 * (L - i) - 1 if order == "big" else 8 * i + 7
                arr = z3.Store(arr, i, z3.simplify(z3.Extract(hi, hi - 7, bv)))
            return SBytes(arr, z3.IntVal(0), z3.IntVal(L))
        if name in ("hex", "__str__", "__repr__", "__format__"):
            return Opaque(name)
        if name == "is_integer":
            return True
    if isinstance(o, SReal):
        if name == "is_integer":
            return simp_bool(z3.IsInt(o.z))
        if name in ("hex", "__str__", "__repr__", "__format__"):
            return Opaque(name)
    if isinstance(o, SBytes):
        if name not in ("extend", "append", "__iadd__", "clear", "insert", "pop", "remove", "reverse", "copy"):
            c = concretize_bytes(o)
            if c is not None:
                cargs, ckw = concretize_args(args, kwargs)
                if all_concrete(cargs) and all_concrete(ckw.values()):
                    try:
                        r = getattr(c, name)(*cargs, **ckw)
                    except Exception as ex:
                        raise PyRaise(ex, implicit=True)
                    return SBytes.const(r, True) if isinstance(r, bytearray) else r
        if name == "hex":
            return Opaque("hex")
        if name == "clear" and o.mutable:
            o.ln = z3.IntVal(0)
            return None
        if name == "decode":
            if I.api is None:
                raise Undecided("decode")
            return I.api.codec_decode(o, *args, **kwargs)
        if name == "ljust":
            width, fill = args[0], (args[1] if len(args) > 1 else b" ")
            wz = zint(width)
            newlen = z3.simplify(z3.If(wz > o.ln, wz, o.ln))
            j = z3.Int("j!lj")
            arr = z3.Lambda([j], z3.If(j < o.ln, o.at(j), z3.BitVecVal(fill[0], 8)))
            return SBytes(arr, z3.IntVal(0), newlen, o.mutable)
        if name == "copy":
            return o.copy()
        if name in ("extend", "__iadd__") and o.mutable:
            nv = bytes_concat(o, args[0])
            o.arr, o.off, o.ln = nv.arr, nv.off, nv.ln
            return None
        if name == "append" and o.mutable:
            n = o.ln
            o.ln = z3.simplify(o.ln + 1)
            bytes_store(I, o, simp_int(n), args[0])
            return None
        if name == "startswith":
            pre = as_sbytes(args[0])
            n = pre.concrete_len()
            if n is None:
                raise Undecided("startswith symbolic prefix")
            return simp_bool(z3.And(o.ln >= n, *[o.at(z3.IntVal(k)) == pre.at(z3.IntVal(k)) for k in range(n)]))
        if name == "find":
            sub = as_sbytes(args[0])
            m = sub.concrete_len()
            if m is None or m == 0:
                raise Undecided("bytes.find with symbolic/empty pattern")
            start = zint(args[1]) if len(args) > 1 and args[1] is not None else z3.IntVal(0)
            end = zint(args[2]) if len(args) > 2 and args[2] is not None else o.ln
            if not e.branch(z3.And(start >= 0, end >= 0), likely=True):
                raise Undecided("bytes.find with negative bounds")
            end = z3.If(end > o.ln, o.ln, end)
            if I.limits.get("find_by_specification") and e.feasible(o.ln > 80):
                # a haystack without a small bound: bytes.find by its specification (assumed contract, A-py): the
                # result is -1 and no position in [start, end - m] matches, or it is the first matching position
                def hit(pz):
                    return z3.And([o.at(pz + k) == sub.at(z3.IntVal(k)) for k in range(m)])
                q = z3.Int(e.newname("q!find"))
                e.quantified = True
                if e.branch(z3.Bool(e.newname("find!found"))):
                    r = z3.Int(e.newname("find!pos"))
                    e.assume(z3.And(start <= r, r + m <= end, hit(r),
                                    z3.ForAll([q], z3.Implies(z3.And(start <= q, q < r), z3.Not(hit(q))))))
                    return SInt(r)
                e.assume(z3.ForAll([q], z3.Implies(z3.And(start <= q, q + m <= end), z3.Not(hit(q)))))
                return -1
            for i in range(0, 80):
                if not e.branch(i + m <= end):
                    return -1
                if not e.branch(i >= start):
                    continue
                hit = z3.And([o.at(z3.IntVal(i + k)) == sub.at(z3.IntVal(k)) for k in range(m)])
                if e.branch(hit):
                    return i
            raise Undecided("bytes.find: message longer than 80 bytes")
    if isinstance(o, SNumText):
        if name == "strip":
            return o
        return Opaque(name)
    if isinstance(o, SText):
        if name == "encode":
            if I.api is None:
                raise Undecided("encode")
            return I.api.codec_encode(o, *args, **kwargs)
        if name in ("__str__", "__repr__", "__format__", "strip", "lower", "upper"):
            return Opaque(name)
    raise Undecided(f"method {name} on symbolic {type(o).__name__}")


def container_method(I, o, name, args, kwargs):
    """methods of concrete builtin containers called with (possibly) symbolic arguments"""
    e = I.e
    if isinstance(o, list):
        if name in ("append", "insert", "extend", "pop", "clear", "copy", "reverse") and not kwargs:
            if name == "extend":
                o.extend(iterate(I, args[0]))
                return None
            if name in ("insert", "pop") and args and is_sym(args[0]):
                k = args[0]
                n = len(o)
                if name == "pop":
                    for idx in range(n):
                        if e.branch(z3.Or(zint(k) == idx, zint(k) == idx - n)):
                            return o.pop(idx)
                    raise PyRaise(IndexError("pop index out of range"), implicit=True)
                for idx in range(n + 1):
                    kz = zint(k)
                    nk = z3.If(kz < 0, z3.If(kz + n < 0, 0, kz + n), z3.If(kz > n, n, kz))
                    if e.branch(nk == idx):
                        o.insert(idx, args[1])
                        return None
                raise Infeasible()
            try:
                return getattr(list, name)(o, *args)
            except Exception as ex:
                raise PyRaise(ex, implicit=True)
        if name == "index":
            x = args[0]
            for idx, y in enumerate(o):
                if y is x or truth(I, compare(I, ast.Eq(), y, x)):
                    return idx
            raise PyRaise(ValueError("x not in list"), implicit=True)
        if name == "remove":
            x = args[0]
            for idx, y in enumerate(o):
                if y is x or truth(I, compare(I, ast.Eq(), y, x)):
                    del o[idx]
                    return None
            raise PyRaise(ValueError("list.remove(x): x not in list"), implicit=True)
        if name == "count":
            raise Undecided("list.count symbolic")
        if name == "sort":
            key = kwargs.get("key")
            rev = kwargs.get("reverse", False)
            o[:] = sym_sorted(I, list(o), key, rev)
            return None
    if isinstance(o, dict):
        if name == "get":
            k = args[0]
            d = args[1] if len(args) > 1 else kwargs.get("default")
            if is_sym(k) or any(is_sym(x) for x in o.keys()):
                for kk in list(o.keys()):
                    if truth(I, compare(I, ast.Eq(), k, kk)):
                        return o[kk]
                return d
            try:
                return o.get(k, d)
            except Exception as ex:
                raise PyRaise(ex, implicit=True)
        if name in ("items", "keys", "values", "copy", "clear", "setdefault", "pop", "update", "popitem"):
            if all(not is_sym(a) for a in args[:1]):
                try:
                    return getattr(dict, name)(o, *args, **kwargs)
                except Exception as ex:
                    raise PyRaise(ex, implicit=True)
            raise Undecided(f"dict.{name} with symbolic key")
    if isinstance(o, (set, frozenset)):
        if all_concrete(args):
            try:
                return getattr(type(o), name)(o, *args, **kwargs)
            except Exception as ex:
                raise PyRaise(ex, implicit=True)
    if isinstance(o, (bytes, bytearray)):
        if name in ("extend",) and is_sym(args[0]):
            raise Undecided("concrete bytearray extended with symbolic bytes (use H.bytearray)")
        if not all_concrete(args):
            return symmethod(I, SBytes.const(o, isinstance(o, bytearray)), name, args, kwargs)
    if isinstance(o, int) and not isinstance(o, bool) and name == "to_bytes":
        L = args[0] if args else kwargs.get("length", 1)
        order = args[1] if len(args) > 1 else kwargs.get("byteorder", "big")
        if is_sym(L):
            L = e.choose_value(zint(L), max_values=70)
        try:
            return o.to_bytes(L, order, signed=kwargs.get("signed", False))
        except Exception as ex:
            raise PyRaise(ex, implicit=True)
    if isinstance(o, str):
        if name == "join":
            parts = iterate(I, args[0])
            if all(isinstance(p, str) for p in parts):
                return o.join(parts)
            return Opaque("join")
        if name in ("format",) and (not all_concrete(args) or not all_concrete(kwargs.values())):
            return Opaque("format")
    return NOT_HANDLED


def sym_sorted(I, items, key=None, reverse=False):
    """stable insertion sort deciding comparisons through the engine (forks on symbolic keys)"""
    keys = [I.call(key, [x]) if key is not None else x for x in items]
    out = []
    for x, k in zip(items, keys):
        pos = len(out)
        for i, (y, ky) in enumerate(out):
            lt = compare(I, ast.Lt() if not reverse else ast.Gt(), k, ky)
            if truth(I, lt):
                pos = i
                break
        out.insert(pos, (x, k))
    return [x for x, _ in out]
