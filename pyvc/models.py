# pyvc.models -- assumed contracts of builtins and third-party dependencies (trusted base, see DESIGN 2.6)
import ast
import builtins
import copy
import math
import re
import typing
import warnings

import z3

from . import ops
from .core import (INT, BV8, ForeignError, Infeasible, Opaque, PyRaise, SBool, SBytes, SInt, SNumText, SRange, SReal, SText,
                   Sym, Undecided, is_sym, zbool, zint, zreal)

MODELS = {}


def model(*fns):

    def deco(f):
        for fn in fns:
            MODELS[fn] = f
        return f

    return deco


def _native(I, fn, args, kwargs):
    return I.native(fn, args, kwargs)


@model(builtins.len)
def m_len(I, args, kwargs):
    v = args[0]
    if isinstance(v, SBytes):
        return ops.simp_int(v.ln)
    if isinstance(v, SText):
        return ops.simp_int(v.ln)
    if is_sym(v) or isinstance(v, Opaque):
        raise PyRaise(TypeError("object has no len()"), implicit=True)
    f = ops.find_dunder(v, "__len__")
    if f is not None:
        return I.call(f, [v])
    return _native(I, len, args, kwargs)


@model(builtins.isinstance)
def m_isinstance(I, args, kwargs):
    v, t = args
    if is_sym(v) or isinstance(v, Opaque):
        return issubclass(ops.pytype(v), t)
    return isinstance(v, t)


@model(builtins.issubclass)
def m_issubclass(I, args, kwargs):
    return issubclass(*args)


@model(builtins.type)
def m_type(I, args, kwargs):
    if len(args) == 1:
        return ops.pytype(args[0])
    return _native(I, type, args, kwargs)


@model(builtins.id)
def m_id(I, args, kwargs):
    return id(args[0])


@model(builtins.callable)
def m_callable(I, args, kwargs):
    from .interp import BoundMethod, Closure
    return isinstance(args[0], (BoundMethod, Closure)) or callable(args[0])


@model(builtins.print)
def m_print(I, args, kwargs):
    I.e.event("print", tuple(args))
    return None


@model(builtins.repr, builtins.str, builtins.ascii, builtins.hex, builtins.format)
def m_text(I, args, kwargs):
    if not args:
        return ""
    v = args[0]
    if isinstance(v, SText):
        return v
    if ops.deep_concrete(v) and ops.all_concrete(args[1:]):
        if isinstance(v, (int, float, str, bytes, bytearray, bool, type(None))) or \
                type(v).__module__ == "builtins" or isinstance(v, __import__("enum").Enum):
            return Opaque("text") if False else _native(I, str, args, kwargs)
    return Opaque("text")


# the dict above maps several builtins to one model; fix str/repr/hex to use the right native function
def _mk_text(fn):

    def m(I, args, kwargs):
        if not args:
            return fn()
        v = args[0]
        if fn is str and isinstance(v, SText):
            return v
        if fn is str and isinstance(v, (SInt, SReal)) and len(args) == 1:
            return SNumText(v)
        if fn is str and isinstance(v, SNumText):
            return v
        if fn is str and isinstance(v, str):
            return v
        if ops.all_concrete(args) and ops.all_concrete(kwargs.values()):
            if isinstance(v, (int, float, str, bytes, bytearray, bool, type(None), __import__("enum").Enum, type)):
                return _native(I, fn, args, kwargs)
            if fn is str and isinstance(v, BaseException):
                try:
                    return str(v)
                except Exception:
                    return Opaque("text")
        return Opaque("text")

    return m


for _fn in (repr, str, ascii, hex, format, bin, oct):
    MODELS[_fn] = _mk_text(_fn)


@model(builtins.int)
def m_int(I, args, kwargs):
    e = I.e
    if not args:
        return 0
    v = args[0]
    if isinstance(v, SNumText):
        # int(text, base): the text of a float never parses as an int literal
        if isinstance(v.num, SReal):
            raise PyRaise(ValueError("invalid literal for int()"), implicit=True, where="int()")
        return v.num
    if isinstance(v, SInt):
        return SInt(v.z, v.bv)
    if isinstance(v, SBool):
        return ops.simp_int(zint(v))
    if isinstance(v, SReal):
        # truncation towards zero
        return ops.simp_int(z3.If(v.z >= 0, z3.ToInt(v.z), -z3.ToInt(-v.z)))
    if isinstance(v, SBytes):
        raise PyRaise(TypeError("int() argument must be a string or a number"), implicit=True)
    if isinstance(v, SText):
        parses = z3.Function("parses_as_int", INT, z3.BoolSort())
        if not e.branch(parses(v.tid)):
            raise PyRaise(ValueError("invalid literal for int()"), implicit=True, where="int()")
        return SInt(z3.Function("int_of_text", INT, INT)(v.tid))
    if isinstance(v, Opaque):
        raise Undecided("int() of unmodelled text")
    if v is None or isinstance(v, (list, tuple, dict)):
        raise PyRaise(TypeError("int() argument must be a string, a bytes-like object or a real number"),
                      implicit=True)
    return _native(I, int, args, kwargs)


@model(builtins.float)
def m_float(I, args, kwargs):
    if not args:
        return 0.0
    v = args[0]
    if isinstance(v, SNumText):
        v = v.num
    if isinstance(v, SReal):
        return v
    if isinstance(v, (SInt, SBool)):
        return SReal(zreal(v))
    if isinstance(v, SBytes):
        raise PyRaise(TypeError("float() argument must be a string or a real number"), implicit=True)
    if isinstance(v, SText):
        # A-codec-like: whether a text parses as a number is an uninterpreted fact about it
        e = I.e
        parses = z3.Function("parses_as_float", INT, z3.BoolSort())
        if not e.branch(parses(v.tid)):
            raise PyRaise(ValueError("could not convert string to float"), implicit=True, where="float()")
        return SReal(z3.Function("float_of_text", INT, z3.RealSort())(v.tid))
    if isinstance(v, Opaque):
        raise Undecided("float() of unmodelled text")
    if v is None or isinstance(v, (list, tuple, dict, bytes, bytearray)):
        raise PyRaise(TypeError("float() argument must be a string or a real number"), implicit=True)
    return _native(I, float, args, kwargs)


@model(builtins.bool)
def m_bool(I, args, kwargs):
    if not args:
        return False
    v = args[0]
    if isinstance(v, SBool):
        return v
    if isinstance(v, SInt):
        return ops.simp_bool(v.z != 0)
    if isinstance(v, SReal):
        return ops.simp_bool(v.z != 0)
    return ops.truth(I, v)


@model(builtins.abs)
def m_abs(I, args, kwargs):
    v = args[0]
    if isinstance(v, (SInt, SBool)):
        z = zint(v)
        return ops.simp_int(z3.If(z < 0, -z, z))
    if isinstance(v, SReal):
        return SReal(z3.If(v.z < 0, -v.z, v.z))
    if is_sym(v) or isinstance(v, Opaque):
        raise PyRaise(TypeError("bad operand type for abs()"), implicit=True)
    return _native(I, abs, args, kwargs)


def _minmax(I, args, kwargs, ismax):
    if len(args) == 1:
        items = ops.iterate(I, args[0])
    else:
        items = list(args)
    key = kwargs.get("key")
    if not items:
        if "default" in kwargs:
            return kwargs["default"]
        raise PyRaise(ValueError("min()/max() arg is an empty sequence"), implicit=True)
    keys = [I.call(key, [x]) if key is not None else x for x in items]
    if all(not is_sym(k) for k in keys) and all(ops.concrete(k) for k in keys):
        try:
            idx = keys.index(max(keys) if ismax else min(keys))
        except Exception as ex:
            raise PyRaise(ex, implicit=True)
        return items[idx]
    if key is None and all(ops.is_num(k) for k in keys) and not any(ops.is_real_like(k) for k in keys):
        # pure int: a single ite term (no forking)
        r = zint(keys[0])
        for k in keys[1:]:
            kz = zint(k)
            r = z3.If(kz > r, kz, r) if ismax else z3.If(kz < r, kz, r)
        return ops.simp_int(r)
    best, bk = items[0], keys[0]
    for x, k in zip(items[1:], keys[1:]):
        c = ops.compare(I, ast.Gt() if ismax else ast.Lt(), k, bk)
        if ops.truth(I, c):
            best, bk = x, k
    return best


@model(builtins.max)
def m_max(I, args, kwargs):
    return _minmax(I, args, kwargs, True)


@model(builtins.min)
def m_min(I, args, kwargs):
    return _minmax(I, args, kwargs, False)


@model(builtins.sum)
def m_sum(I, args, kwargs):
    items = ops.iterate(I, args[0])
    acc = args[1] if len(args) > 1 else kwargs.get("start", 0)
    for x in items:
        acc = ops.binop(I, ast.Add(), acc, x)
    return acc


@model(builtins.any)
def m_any(I, args, kwargs):
    for x in ops.iterate(I, args[0]):
        if ops.truth(I, x):
            return True
    return False


@model(builtins.all)
def m_all(I, args, kwargs):
    for x in ops.iterate(I, args[0]):
        if not ops.truth(I, x):
            return False
    return True


@model(builtins.round)
def m_round(I, args, kwargs):
    v = args[0]
    nd = args[1] if len(args) > 1 else kwargs.get("ndigits")
    if isinstance(v, (SInt, SBool)) and nd is None:
        return v
    if isinstance(v, SReal) and isinstance(nd, int) and not isinstance(nd, bool):
        scale = z3.RealVal(10) ** nd if nd >= 0 else None
        if scale is None:
            raise Undecided("round with negative ndigits")
        scale = z3.RealVal(10**nd)
        r = m_round(I, [SReal(v.z * scale)], {})
        return SReal(zreal(r) / scale)
    if isinstance(v, SReal):
        if nd is not None:
            raise Undecided("round with symbolic ndigits")
        f = z3.ToInt(v.z)  # floor
        d = v.z - z3.ToReal(f)
        half = z3.RealVal(1) / 2
        r = z3.If(d < half, f, z3.If(d > half, f + 1, z3.If(f % 2 == 0, f, f + 1)))  # round-half-even
        return ops.simp_int(r)
    return _native(I, round, args, kwargs)


@model(builtins.range)
def m_range(I, args, kwargs):
    if all(not is_sym(a) for a in args):
        return _native(I, range, args, kwargs)
    if len(args) == 1:
        return SRange(z3.IntVal(0), zint(args[0]))
    if len(args) == 2:
        return SRange(zint(args[0]), zint(args[1]))
    raise Undecided("range with symbolic step")


@model(builtins.enumerate)
def m_enumerate(I, args, kwargs):
    start = args[1] if len(args) > 1 else kwargs.get("start", 0)
    return [(start + i, x) for i, x in enumerate(ops.iterate(I, args[0]))]


@model(builtins.zip)
def m_zip(I, args, kwargs):
    return list(zip(*[ops.iterate(I, a) for a in args]))


@model(builtins.reversed)
def m_reversed(I, args, kwargs):
    return list(reversed(ops.iterate(I, args[0])))


@model(builtins.sorted)
def m_sorted(I, args, kwargs):
    return ops.sym_sorted(I, ops.iterate(I, args[0]), kwargs.get("key"), kwargs.get("reverse", False))


@model(builtins.map)
def m_map(I, args, kwargs):
    f = args[0]
    return [I.call(f, list(xs)) for xs in zip(*[ops.iterate(I, a) for a in args[1:]])]


@model(builtins.filter)
def m_filter(I, args, kwargs):
    f = args[0]
    return [x for x in ops.iterate(I, args[1]) if ops.truth(I, I.call(f, [x]) if f is not None else x)]


@model(builtins.list)
def m_list(I, args, kwargs):
    return list(ops.iterate(I, args[0])) if args else []


@model(builtins.tuple)
def m_tuple(I, args, kwargs):
    return tuple(ops.iterate(I, args[0])) if args else ()


@model(builtins.set)
def m_set(I, args, kwargs):
    items = ops.iterate(I, args[0]) if args else []
    if any(is_sym(x) for x in items):
        return SymSet(I, items)
    return set(items)


class SymSet:
    """set with symbolic elements: a duplicate-free list under the engine's equality (forks when undecided)"""

    def __init__(self, I, items):
        self.items = []
        for x in items:
            if not ops.truth(I, ops.contains(I, self.items, x)):
                self.items.append(x)

    def __iter__(self):
        return iter(self.items)

    def __len__(self):
        return len(self.items)

    def __pyvc_method__(self, I, name, args, kwargs):
        if name == "isdisjoint":
            other = ops.iterate(I, args[0])
            for x in self.items:
                if ops.truth(I, ops.contains(I, other, x)):
                    return False
            return True
        if name == "add":
            if not ops.truth(I, ops.contains(I, self.items, args[0])):
                self.items.append(args[0])
            return None
        if name == "__contains__":
            return ops.contains(I, self.items, args[0])
        raise Undecided(f"SymSet.{name}")


@model(builtins.frozenset)
def m_frozenset(I, args, kwargs):
    return frozenset(m_set(I, args, kwargs))


@model(builtins.dict)
def m_dict(I, args, kwargs):
    d = {}
    if args:
        src = args[0]
        if isinstance(src, dict):
            d.update(src)
        else:
            for k, v in ops.iterate(I, src):
                if is_sym(k):
                    raise Undecided("dict() with symbolic key")
                d[k] = v
    d.update(kwargs)
    return d


@model(builtins.iter)
def m_iter(I, args, kwargs):
    if isinstance(args[0], ops.OneShot):
        return args[0]
    return ops.OneShot(ops.iterate(I, args[0]))


@model(builtins.next)
def m_next(I, args, kwargs):
    it = args[0]
    if isinstance(it, ops.OneShot):
        it = it.items
    if isinstance(it, list):
        if it:
            return it.pop(0)
        if len(args) > 1:
            return args[1]
        raise PyRaise(StopIteration(), implicit=True)
    raise Undecided("next() on non-list iterator")


@model(builtins.getattr)
def m_getattr(I, args, kwargs):
    o, name = args[0], args[1]
    if not isinstance(name, str):
        raise Undecided("getattr with symbolic name")
    try:
        return ops.getattr_(I, o, name)
    except PyRaise as pr:
        if isinstance(pr.exc, AttributeError) and len(args) > 2:
            return args[2]
        raise


@model(builtins.hasattr)
def m_hasattr(I, args, kwargs):
    o, name = args
    if not isinstance(name, str):
        raise Undecided("hasattr with symbolic name")
    try:
        ops.getattr_(I, o, name)
        return True
    except PyRaise as pr:
        if isinstance(pr.exc, AttributeError):
            return False
        raise


@model(builtins.setattr)
def m_setattr(I, args, kwargs):
    o, name, v = args
    ops.setattr_(I, o, name, v)
    return None


@model(builtins.bytes, builtins.bytearray)
def m_bytes_generic(I, args, kwargs):
    raise Undecided("internal: bytes model not specialised")


def _mk_bytes(ctor):
    mutable = ctor is bytearray

    def m(I, args, kwargs):
        e = I.e
        if not args:
            return SBytes.const(b"", True) if mutable else b""
        v = args[0]
        if isinstance(v, SBytes):
            return SBytes(v.arr, v.off, v.ln, mutable)
        if isinstance(v, (SInt,)):
            if not e.branch(v.z >= 0):
                raise PyRaise(ValueError("negative count"), implicit=True)
            return SBytes(z3.K(INT, z3.BitVecVal(0, 8)), z3.IntVal(0), v.z, mutable)
        if isinstance(v, (list, tuple)) and not ops.concrete(v):
            arr = z3.K(INT, z3.BitVecVal(0, 8))
            for i, x in enumerate(v):
                if isinstance(x, int):
                    if not 0 <= x < 256:
                        raise PyRaise(ValueError("bytes must be in range(0, 256)"), implicit=True)
                    bvv = z3.BitVecVal(x, 8)
                else:
                    if not (x.bv is not None and not x.bv[2] and x.bv[1] <= 8) and not (
                            x.rng is not None and 0 <= x.rng[0] and x.rng[1] < 256):
                        if not e.branch(z3.And(x.z >= 0, x.z < 256), likely=True):
                            raise PyRaise(ValueError("bytes must be in range(0, 256)"), implicit=True)
                    bvv = ops.bvview(I, x, 8)
                arr = z3.Store(arr, i, bvv)
            return SBytes(arr, z3.IntVal(0), z3.IntVal(len(v)), mutable)
        if is_sym(v) or isinstance(v, Opaque):
            raise PyRaise(TypeError("cannot convert to bytes"), implicit=True)
        r = _native(I, ctor, args, kwargs)
        # every bytearray created by interpreted code is a symbolic-capable object with Python reference identity
        return SBytes.const(r, True) if mutable else r

    return m


MODELS[bytes] = _mk_bytes(bytes)
MODELS[bytearray] = _mk_bytes(bytearray)


@model(int.from_bytes)
def m_from_bytes(I, args, kwargs):
    b = args[0]
    order = args[1] if len(args) > 1 else kwargs.get("byteorder", "big")
    if kwargs.get("signed", False):
        raise Undecided("from_bytes signed")
    if not isinstance(b, SBytes):
        return _native(I, int.from_bytes, args, kwargs)
    n = b.concrete_len()
    if n is None:
        raise Undecided("from_bytes with symbolic length")
    if n == 0:
        return 0
    bs = [z3.simplify(b.at(z3.IntVal(k))) for k in range(n)]
    if order != "big":
        bs = bs[::-1]
    bv = z3.Concat(*bs) if n > 1 else bs[0]
    return ops.from_bv(z3.simplify(bv), 8 * n)


# ---- typing / copy / math
@model(typing.cast)
def m_cast(I, args, kwargs):
    return args[1]


@model(copy.copy)
def m_copy(I, args, kwargs):
    v = args[0]
    if isinstance(v, SBytes):
        return v.copy()
    if is_sym(v):
        return v
    f = ops.find_dunder(v, "__copy__")
    if f is not None:
        return I.call(f, [v])
    if isinstance(v, (list, dict, set)):
        return type(v)(v) if type(v) in (list, dict, set) else copy.copy(v)
    return copy.copy(v)


@model(copy.deepcopy)
def m_deepcopy(I, args, kwargs):
    v = args[0]
    memo = args[1] if len(args) > 1 else kwargs.get("memo")
    return _deepcopy(I, v, memo if isinstance(memo, dict) else {})


def _deepcopy(I, v, memo):
    if isinstance(v, SBytes):
        return v.copy()
    if is_sym(v) or isinstance(v, Opaque):
        return v
    if id(v) in memo:
        return memo[id(v)]
    f = ops.find_dunder(v, "__deepcopy__")
    if f is not None:
        return I.call(f, [v, memo])
    if type(v) is list:
        r = []
        memo[id(v)] = r
        r.extend(_deepcopy(I, x, memo) for x in v)
        return r
    if type(v) is tuple:
        return tuple(_deepcopy(I, x, memo) for x in v)
    if type(v) is dict:
        r = {}
        memo[id(v)] = r
        for k, x in v.items():
            r[k] = _deepcopy(I, x, memo)
        return r
    if ops.deep_concrete(v):
        return copy.deepcopy(v, memo)
    d = getattr(v, "__dict__", None)
    if isinstance(d, dict):
        r = object.__new__(type(v))
        memo[id(v)] = r
        for k, x in d.items():
            object.__setattr__(r, k, _deepcopy(I, x, memo))
        return r
    raise Undecided(f"deepcopy of {type(v).__name__}")


@model(math.floor)
def m_floor(I, args, kwargs):
    v = args[0]
    if isinstance(v, SReal):
        return ops.simp_int(z3.ToInt(v.z))
    if isinstance(v, SInt):
        return v
    return _native(I, math.floor, args, kwargs)


@model(math.ceil)
def m_ceil(I, args, kwargs):
    v = args[0]
    if isinstance(v, SReal):
        return ops.simp_int(-z3.ToInt(-v.z))
    if isinstance(v, SInt):
        return v
    return _native(I, math.ceil, args, kwargs)


@model(math.isnan, math.isinf)
def m_isnan(I, args, kwargs):
    v = args[0]
    if is_sym(v):
        return False  # A-float: reals only
    return _native(I, math.isnan, args, kwargs)


# ---- warnings / logging
@model(warnings.warn)
def m_warn(I, args, kwargs):
    cat = args[1] if len(args) > 1 else kwargs.get("category", UserWarning)
    I.e.event("warn", cat)
    return None


def m_noop(I, args, kwargs):
    return None


def install_logger_models(models):
    import logging
    for name in ("debug", "info", "warning", "error", "critical", "exception", "log"):
        models[getattr(logging.Logger, name)] = m_noop


install_logger_models(MODELS)


# ---- bitstruct (A-bitstruct): big-endian bit packing, common contract of both back ends
_FMT_RE = re.compile(r"([pPufrst])(\d+)")


def parse_fmt(fmt, I=None):
    from .core import SFmt
    if isinstance(fmt, SFmt) and I is not None:
        # the common precondition of both back ends on a symbolic field size is split off first (integers of more than
        # 64 bits and raw/text fields that are no multiple of 8 bits raise NotImplementedError in the C back end) ...
        prev = ""
        for p in fmt.parts:
            if isinstance(p, str):
                prev = p
                continue
            letter = prev[-1:] if prev else ""
            if letter in ("u", "s") and I.e.branch(p.z > 64, likely=False):
                raise _foreign("integer field of more than 64 bits")
            if letter in ("r", "t") and I.e.branch(p.z % 8 != 0, likely=False):
                raise _foreign("raw/text field size is no multiple of 8 bits")
            prev = ""
        # ... then the symbolic int parts of the format are decided by enumeration of their feasible values
        fmt = "".join([p if isinstance(p, str) else str(I.e.choose_value(p.z, max_values=70)) for p in fmt.parts])
    if not isinstance(fmt, str):
        raise Undecided("bitstruct format not concrete")
    pos = 0
    items = []
    if re.fullmatch(r"(?:[pPufrst]-?\d+)+", fmt) and "-" in fmt:
        # a negative field size: both back ends reject the format with an exception of their own
        raise _foreign(f"negative field size in format {fmt!r}")
    for m in _FMT_RE.finditer(fmt):
        if m.start() != pos:
            raise Undecided(f"bitstruct format {fmt!r}")
        pos = m.end()
        items.append((m.group(1), int(m.group(2))))
    if pos != len(fmt):
        raise Undecided(f"bitstruct format {fmt!r}")
    return items


def _foreign(what):
    return PyRaise(ForeignError(what), implicit=True, where="bitstruct")


def _single_symbolic_raw_field(fmt):
    """the size term if the format is one raw field of symbolic size (f"r{n}"), else None.  For such a format both back
    ends copy the first n/8 bytes (n a positive multiple of 8, enough input) - no enumeration of sizes is needed, so
    byte fields of any length stay within one path."""
    from .core import SFmt
    if not isinstance(fmt, SFmt):
        return None
    parts = [p for p in fmt.parts if not (isinstance(p, str) and p == "")]
    if len(parts) == 2 and parts[0] == "r" and isinstance(parts[1], SInt):
        return parts[1]
    return None


def _raw_field_preconditions(I, n):
    e = I.e
    if e.branch(n.z % 8 != 0, likely=False):
        raise _foreign("raw/text field size is no multiple of 8 bits")
    if e.branch(n.z < 0, likely=False):
        raise _foreign("negative field size")
    if e.branch(n.z == 0, likely=False):
        raise _foreign("zero-size field")


def bs_pack(I, args, kwargs):
    e = I.e
    n = _single_symbolic_raw_field(args[0]) if I.limits.get("symbolic_raw_fields") else None
    if n is not None and len(args) >= 2:
        _raw_field_preconditions(I, n)
        v = args[1]
        if not ops.is_bytes_like(v):
            raise _foreign("bad value type for 'r'")
        b = ops.as_sbytes(v)
        if not e.branch(8 * b.ln >= n.z):
            raise _foreign("'r' value shorter than the field")
        return SBytes(b.arr, b.off, z3.simplify(n.z / 8))
    items = parse_fmt(args[0], I)
    vals = list(args[1:])
    total = sum(n for _, n in items)
    nbytes = (total + 7) // 8
    if any(n == 0 for c, n in items if c not in "pP"):
        raise _foreign("zero-size field")
    # assemble the bit string as a list of bit-vector pieces, MSB first
    pieces = []
    for c, n in items:
        if c == "p":
            pieces.append(z3.BitVecVal(0, n))
            continue
        if c == "P":
            pieces.append(z3.BitVecVal((1 << n) - 1, n))
            continue
        if not vals:
            raise _foreign("too few values")
        v = vals.pop(0)
        if c == "u":
            if isinstance(v, (SReal, float, SBytes, bytes, bytearray, str, SText, type(None))) or isinstance(v, Opaque):
                raise _foreign("bad value type for 'u'")
            vz = zint(v)
            if not e.branch(z3.And(vz >= 0, vz < (1 << n))):
                raise _foreign("'u' value out of range")
            pieces.append(ops.bvview(I, v, n, in_range=True))
        elif c == "s":
            vz = zint(v)
            if not e.branch(z3.And(vz >= -(1 << (n - 1)), vz < (1 << (n - 1)))):
                raise _foreign("'s' value out of range")
            x = z3.BitVec(e.newname("bvs"), n)
            e.assume(z3.BV2Int(x, True) == vz)
            pieces.append(x)
        elif c == "f":
            if n not in (16, 32, 64):
                raise _foreign("bad float size")
            if isinstance(v, (SBytes, bytes, bytearray, str, SText, type(None))) or isinstance(v, Opaque):
                raise _foreign("bad value type for 'f'")
            pieces.append(I.api.ieee_bits(v, n))
        elif c in "r":
            if n % 8:
                raise _foreign("raw field not a multiple of 8 bits (NotImplementedError in bitstruct.c)")
            if not ops.is_bytes_like(v):
                raise _foreign("bad value type for 'r'")
            b = ops.as_sbytes(v)
            # common contract of both back ends: the value must supply at least n bits
            if not e.branch(8 * b.ln >= n):
                raise _foreign("'r' value shorter than the field")
            full, rem = divmod(n, 8)
            for k in range(full):
                pieces.append(z3.simplify(b.at(z3.IntVal(k))))
            if rem:
                pieces.append(z3.Extract(7, 8 - rem, b.at(z3.IntVal(full))))
        else:
            raise Undecided(f"bitstruct format letter {c}")
    if vals:
        pass  # surplus values are ignored by bitstruct
    if total == 0:
        return b""
    if total % 8:
        pieces.append(z3.BitVecVal(0, 8 - total % 8))
    whole = z3.simplify(z3.Concat(*pieces)) if len(pieces) > 1 else pieces[0]
    arr = z3.K(INT, z3.BitVecVal(0, 8))
    for i in range(nbytes):
        hi = 8 * (nbytes - i) - 1
        arr = z3.Store(arr, i, z3.simplify(z3.Extract(hi, hi - 7, whole)))
    return SBytes(arr, z3.IntVal(0), z3.IntVal(nbytes))


def bs_unpack_from(I, args, kwargs):
    e = I.e
    fmt = args[0]
    data = args[1]
    offset = args[2] if len(args) > 2 else kwargs.get("offset", 0)
    n = _single_symbolic_raw_field(fmt) if I.limits.get("symbolic_raw_fields") else None
    if n is not None and ops.is_bytes_like(data) and (not is_sym(offset) or not e.feasible(zint(offset) != 0)) and \
            (is_sym(offset) or offset == 0):
        _raw_field_preconditions(I, n)
        b = ops.as_sbytes(data)
        if not e.branch(8 * b.ln >= n.z):
            raise _foreign("unpack requires more bits than available")
        return (SBytes(b.arr, b.off, z3.simplify(n.z / 8)),)
    items = parse_fmt(fmt, I)
    if is_sym(offset):
        # typically the padding computed from a symbolic bit length: a single value once the format is decided
        offset = e.choose_value(zint(offset), max_values=70)
    if not ops.is_bytes_like(data):
        raise _foreign("unpack of non-bytes")
    b = ops.as_sbytes(data)
    total = offset + sum(n for _, n in items)
    need = (total + 7) // 8
    if not e.branch(b.ln >= need):
        raise _foreign("unpack requires more bits than available")
    if any(n == 0 for c, n in items if c not in "pP"):
        raise _foreign("zero-size field")
    whole = None
    if need:
        bs = [z3.simplify(b.at(z3.IntVal(k))) for k in range(need)]
        whole = z3.Concat(*bs) if need > 1 else bs[0]
    W = 8 * need
    out = []
    pos = offset
    for c, n in items:
        if c in "pP":
            pos += n
            continue
        hi = W - 1 - pos
        piece = z3.simplify(z3.Extract(hi, hi - n + 1, whole))
        pos += n
        if c == "u":
            out.append(ops.from_bv(piece, n))
        elif c == "s":
            out.append(SInt(z3.BV2Int(piece, True), (piece, n, True)))
        elif c == "f":
            if n not in (16, 32, 64):
                raise _foreign("bad float size")
            out.append(I.api.ieee_value(piece, n))
        elif c == "r":
            if n % 8:
                raise _foreign("raw field not a multiple of 8 bits (NotImplementedError in bitstruct.c)")
            nb = (n + 7) // 8
            padded = piece if n % 8 == 0 else z3.Concat(piece, z3.BitVecVal(0, 8 - n % 8))
            arr = z3.K(INT, z3.BitVecVal(0, 8))
            for i in range(nb):
                h = 8 * (nb - i) - 1
                arr = z3.Store(arr, i, z3.simplify(z3.Extract(h, h - 7, padded)))
            out.append(SBytes(arr, z3.IntVal(0), z3.IntVal(nb)))
        else:
            raise Undecided(f"bitstruct format letter {c}")
    return tuple(out)


def bs_unpack(I, args, kwargs):
    return bs_unpack_from(I, [args[0], args[1], 0], {})


def install_bitstruct(models):
    import bitstruct
    mods = [bitstruct]
    try:
        import bitstruct.c as bc
        mods.append(bc)
    except ImportError:
        pass

    def wrap(native, sym):

        def m(I, args, kwargs):
            if ops.all_concrete(args) and ops.all_concrete(kwargs.values()):
                try:
                    return native(*args, **kwargs)
                except Exception as ex:
                    # any exception of the dependency is foreign; keep the real class for the replay text
                    raise PyRaise(ForeignError(f"{type(ex).__name__}: {ex}"), implicit=True, where="bitstruct")
            return sym(I, args, kwargs)

        return m

    for mod in mods:
        models[mod.pack] = wrap(mod.pack, bs_pack)
        models[mod.unpack] = wrap(mod.unpack, bs_unpack)
        models[mod.unpack_from] = wrap(mod.unpack_from, bs_unpack_from)


install_bitstruct(MODELS)


# ---- python-can (A-lib): Message is a plain record
class GhostMessage:

    def __init__(self, **kw):
        self.__dict__.update(kw)


def install_can(models):
    try:
        import can
    except ImportError:
        return

    def m_message(I, args, kwargs):
        if args:
            raise Undecided("can.Message positional arguments")
        return GhostMessage(**kwargs)

    models[can.Message] = m_message


install_can(MODELS)


# ---- rich (A-lib): tables are ghost objects whose rows are recorded as events; printing is a no-op
class GhostTable:

    def __init__(self, *a, **kw):
        self.columns = []
        self.rows = []

    def add_column(self, *a, **kw):
        self.columns.append(a[0] if a else None)

    def add_row(self, *a, **kw):
        self.rows.append(tuple(a))
        if ops.CUR_ENGINE is not None:
            ops.CUR_ENGINE.event("table_row", tuple(a))


def install_rich(models):
    try:
        import rich
        from rich.table import Table
        from rich.padding import Padding
    except ImportError:
        return

    def m_table(I, args, kwargs):
        return GhostTable()

    def m_add_column(I, args, kwargs):
        args[0].columns.append(args[1] if len(args) > 1 else None)
        return None

    def m_add_row(I, args, kwargs):
        args[0].rows.append(tuple(args[1:]))
        I.e.event("table_row", tuple(args[1:]))
        return None

    models[Table] = m_table
    models[Table.add_column] = m_add_column
    models[Table.add_row] = m_add_row
    models[rich.print] = m_noop
    models[Padding] = lambda I, args, kwargs: args[0] if args else None


install_rich(MODELS)
