# pyvc.runner -- path exploration of a harness, native replay of counter-models, task pool, aggregation
import importlib
import json
import multiprocessing as mp
import os
import sys
import time
import traceback
from fractions import Fraction

import z3

from . import api, findings, interp, models, ops, registry
from .core import (Engine, Infeasible, Opaque, PathEnd, PyRaise, SBool, SBytes, SInt, SReal, SText, Undecided,
                   concretize)

ROOT = os.path.dirname(os.path.dirname(os.path.abspath(__file__)))
CONTRACT_MODULES = []  # filled by contracts/__init__.py


def load_contracts():
    if ROOT not in sys.path:
        sys.path.insert(0, ROOT)
    import contracts
    for m in contracts.MODULES:
        importlib.import_module(f"contracts.{m}")


def jsonable(v):
    if isinstance(v, (bytes, bytearray)):
        return {"hex": bytes(v).hex(), "mutable": isinstance(v, bytearray)}
    if isinstance(v, Fraction):
        return {"num": v.numerator, "den": v.denominator}
    if isinstance(v, tuple) and v and v[0] == "text":
        return {"text_id": v[1], "chars": v[2]}
    if isinstance(v, (list, tuple)):
        return [jsonable(x) for x in v]
    if isinstance(v, dict):
        return {str(k): jsonable(x) for k, x in v.items()}
    if isinstance(v, (int, float, str, bool)) or v is None:
        return v
    return repr(v)


def unjson(v):
    if isinstance(v, dict) and "hex" in v:
        b = bytes.fromhex(v["hex"])
        return bytearray(b) if v.get("mutable") else b
    if isinstance(v, dict) and "num" in v:
        return Fraction(v["num"], v["den"])
    if isinstance(v, dict) and "text_id" in v:
        return ("text", v["text_id"], v["chars"])
    return v


def native_run(h, params, inputs):
    nh = api.NativeH(inputs)
    return nh.run(h.fn, params)


class _BoolRewrite(__import__("ast").NodeTransformer):
    """and/or/not -> H.And/H.Or/H.Not so that evaluating a witness-class predicate never forks the path"""

    def visit_BoolOp(self, node):
        import ast
        self.generic_visit(node)
        fn = "And" if isinstance(node.op, ast.And) else "Or"
        return ast.copy_location(
            ast.Call(ast.Attribute(ast.Name("H", ast.Load()), fn, ast.Load()), node.values, []), node)

    def visit_UnaryOp(self, node):
        import ast
        self.generic_visit(node)
        if isinstance(node.op, ast.Not):
            return ast.copy_location(
                ast.Call(ast.Attribute(ast.Name("H", ast.Load()), "Not", ast.Load()), [node.operand], []), node)
        return node


def _make_witness_eval(eng, I, sh, params):
    import ast

    def ev(expr):
        tree = _BoolRewrite().visit(ast.parse(expr, mode="eval"))
        ast.fix_missing_locations(tree)
        env = interp.Env()
        env.update(params)
        env.update(eng.inputs)
        return sh._z(I.eval(tree.body, env, {"H": api.H}, None))

    return ev


_BYTE_WITNESSES = [b"\xff", b"\x00\xd8", b"\xd8\x00", b"\x81", b"\xc0\x80", b"\x00"]
_TEXT_WITNESSES = ["\u20ac", "a", "\ud800", "\U0001F600", "\u00e9", ""]


def _witness_variants(base):
    bkeys = [k for k, v in base.items() if isinstance(v, (bytes, bytearray))]
    tkeys = [k for k, v in base.items() if isinstance(v, tuple) and v and v[0] == "text"]
    for k in tkeys:
        for w in _TEXT_WITNESSES:
            for n in (max(1, base[k][2]), 1, 2, 4, 8):
                v = dict(base)
                v[k] = w * n if w else ""
                yield v
    for k in bkeys:
        n = len(base[k])
        for w in _BYTE_WITNESSES:
            for ln in (n, n + 2, 2, 4, 8):
                v = dict(base)
                b = (w * (ln // len(w) + 1))[:ln]
                v[k] = bytearray(b) if isinstance(base[k], bytearray) else b
                yield v


def explore(hname, params, opts):
    """Explore every path of harness `hname` for `params`. Returns a JSON-able task result."""
    t_start = time.time()
    h = registry.HARNESSES[hname]
    limits = dict(opts.get("limits", {}))
    limits.update(h.limits)
    max_paths = limits.pop("max_paths", 6000)
    task_timeout = limits.pop("task_timeout", opts.get("task_timeout", 600))
    obl_timeout = limits.pop("obl_timeout_ms", None)
    stats = {}
    decisions = []
    obligations = {}  # name -> dict
    covers = set()
    undecided = []
    exits = {}
    npaths = 0
    bounded_paths = 0
    path_samples = []
    crosscheck = {"runs": 0, "disagreements": []}
    xc_budget = opts.get("crosscheck_per_task", 2) if h.crosscheck else 0
    known = findings.for_harness(hname, params)
    call_contracts = {}
    for key in h.use_contracts:
        call_contracts.update(registry.CALL_CONTRACTS[key])
    feasible_end = 0
    aborted = None
    while True:
        if npaths >= max_paths:
            aborted = f"path limit {max_paths}"
            break
        if time.time() - t_start > task_timeout:
            aborted = f"task timeout {task_timeout}s"
            break
        eng = Engine(decisions, stats)
        ops.CUR_ENGINE = eng
        if obl_timeout:
            eng.OBL_TIMEOUT_MS = obl_timeout
        eng.known_findings = known
        I = interp.Interp(eng, models.MODELS, registry.LOOPSPECS, call_contracts, limits)
        sh = api.SymH(I)
        I.api = sh
        api.H._impl = None
        eng.harness_params = params
        eng.eval_witness = _make_witness_eval(eng, I, sh, params)
        outcome = "normal"
        detail = None
        try:
            try:
                I.call(h.fn, [], dict(params))
            finally:
                pass
        except Infeasible:
            outcome = "infeasible"
        except PathEnd:
            outcome = "inductive-step-end"
        except Undecided as u:
            outcome = "undecided"
            detail = str(u)
            undecided.append(detail)
        except PyRaise as pr:
            outcome = "escaped"
            detail = f"{type(pr.exc).__module__}.{type(pr.exc).__name__}" + (f"@{pr.where}" if pr.where else "")
            try:
                detail += ": " + str(pr.exc)[:160]
            except Exception:
                pass
            # an exception that leaves the harness is an obligation failure of its own
            name = f"no-exception-escapes-harness[{type(pr.exc).__name__}]"
            eng.solver.push()
            r = eng._check(eng.OBL_TIMEOUT_MS)
            if r == z3.sat:
                eng.results.append((name, "refuted", eng.model_inputs(eng.solver.model()), f"z3;{detail}"))
            elif r == z3.unknown:
                eng.results.append((name, "unknown", None, f"z3;{detail}"))
            eng.solver.pop()
        except RecursionError:
            outcome = "undecided"
            undecided.append("python recursion limit in interpreter")
        npaths += 1
        if eng.path_bounded:
            bounded_paths += 1
        exits[outcome] = exits.get(outcome, 0) + 1
        covers |= eng.covers
        for (name, status, minputs, info) in eng.results:
            o = obligations.setdefault(name, {"proved": 0, "refuted": 0, "unknown": 0, "known": 0, "models": [],
                                              "backends": {}, "known_ids": [], "bounded_paths": 0})
            if status.startswith("known:"):
                o["known"] += 1
                fid = status.split(":", 1)[1]
                if fid not in o["known_ids"]:
                    o["known_ids"].append(fid)
            else:
                o[status] += 1
            if eng.path_bounded:
                o["bounded_paths"] += 1
            be = (info or "z3").split(";")[0]
            o["backends"][be] = o["backends"].get(be, 0) + 1
            if status == "refuted" and minputs is not None and len(o["models"]) < 4:
                o["models"].append({"inputs": jsonable(minputs), "info": info})
        if outcome in ("normal", "escaped") and len(path_samples) < 2:
            path_samples.append({"outcome": outcome, "detail": detail, "decisions": len(decisions),
                                 "checks": [r[0] for r in eng.results][:12]})
        # vacuity canary + engine-vs-CPython cross-check on feasible completed paths
        if outcome == "normal":
            all_proved = all(r[1] == "proved" for r in eng.results)
            if feasible_end == 0 or (xc_budget > 0 and all_proved):
                r = eng._check(4000)
                if r == z3.sat:
                    feasible_end += 1
                    if xc_budget > 0 and all_proved and not eng.quantified_inputs_unsafe():
                        xc_budget -= 1
                        minputs = eng.model_inputs(eng.solver.model())
                        try:
                            nr = native_run(h, params, minputs)
                        except Exception as ex:  # harness bug in native mode
                            nr = {"failed": [], "exception": {"class": type(ex).__name__, "text": str(ex)},
                                  "assume_failed": False}
                        crosscheck["runs"] += 1
                        if not nr.get("assume_failed") and (nr["failed"] or nr["exception"]):
                            crosscheck["disagreements"].append({"inputs": jsonable(minputs), "native": {
                                "failed": nr["failed"], "exception": nr["exception"]}})
                elif r == z3.unknown:
                    feasible_end += 1  # cannot tell; do not raise a vacuity alarm
        # backtrack
        while decisions and not decisions[-1][1]:
            decisions.pop()
        if not decisions:
            break
        decisions[-1][0] = decisions[-1][1].pop(0)
    # native replay of counter-models
    replays = {}
    for name, o in obligations.items():
        if not o["refuted"]:
            continue
        rep = {"confirmed": False, "attempts": []}
        for m in o["models"]:
            inputs = {k: unjson(v) for k, v in m["inputs"].items()}
            try:
                nr = native_run(h, params, inputs)
            except Exception as ex:
                nr = {"failed": [], "exception": {"class": type(ex).__name__, "text": str(ex),
                                                  "traceback": traceback.format_exc()[-800:]},
                      "assume_failed": False, "replay_error": True}
            short = name
            confirmed = (short in nr.get("failed", [])) or (
                name.startswith("no-exception-escapes-harness") and nr.get("exception") is not None and
                not nr.get("replay_error"))
            rep["attempts"].append({"inputs": m["inputs"], "native_failed_checks": nr.get("failed"),
                                    "native_exception": nr.get("exception"),
                                    "assume_failed": nr.get("assume_failed"), "confirmed": confirmed})
            if confirmed:
                rep["confirmed"] = True
                break
        if not rep["confirmed"] and o["models"]:
            # neighbourhood search: where the model's bytes / text stand for an abstracted fact (A-codec:
            # "undecodable", "unencodable"), substitute known witnesses of the same shape
            base = {k: unjson(v) for k, v in o["models"][0]["inputs"].items()}
            tried = 0
            for variant in _witness_variants(base):
                tried += 1
                if tried > 24:
                    break
                try:
                    nr = native_run(h, params, variant)
                except Exception:
                    continue
                confirmed = (name in nr.get("failed", [])) or (
                    name.startswith("no-exception-escapes-harness") and nr.get("exception") is not None)
                if confirmed:
                    rep["attempts"].append({"inputs": jsonable(variant), "native_failed_checks": nr.get("failed"),
                                            "native_exception": nr.get("exception"), "assume_failed": False,
                                            "confirmed": True, "from": "witness-substitution"})
                    rep["confirmed"] = True
                    break
        replays[name] = rep
    return {
        "harness": hname,
        "params": jsonable(params),
        "obligations": obligations,
        "covers": sorted(covers),
        "undecided": undecided[:10],
        "n_undecided": len(undecided),
        "exits": exits,
        "paths": npaths,
        "bounded_paths": bounded_paths,
        "feasible_end": feasible_end,
        "aborted": aborted,
        "stats": stats,
        "wall_s": round(time.time() - t_start, 3),
        "replays": replays,
        "crosscheck": crosscheck,
        "path_samples": path_samples,
        "functions": dict(interp.FUNCTIONS_SEEN),
    }


def _worker(job):
    hname, params, opts = job
    try:
        load_contracts()
        return explore(hname, params, opts)
    except Exception as ex:
        return {"harness": hname, "params": jsonable(params), "crash": f"{type(ex).__name__}: {ex}",
                "traceback": traceback.format_exc()[-3000:]}


def confirmed_violation(r, prop=None):
    """does this result carry a refuted obligation of property `prop` whose counter-model was replayed on the real
    code?  (obligations tagged for other properties do not count: they are not violations of the property checked)"""
    h = registry.HARNESSES.get(r.get("harness"))
    for name, o in (r.get("obligations") or {}).items():
        if prop is not None and h is not None:
            props, _ = registry.obligation_props(name, h.props)
            if prop not in props:
                continue
        if o.get("refuted") and (r.get("replays") or {}).get(name, {}).get("confirmed"):
            return True
    return False


def run_jobs(jobs, nproc=None, fail_fast=False, prop=None):
    """fail_fast: stop scheduling once a family member reports a violation confirmed on the real code (the remaining
    members are not needed for the verdict; on broken code they can take very long)"""
    nproc = nproc or min(16, os.cpu_count() or 4)
    if len(jobs) <= 1 or nproc == 1:
        out = []
        for j in jobs:
            out.append(_worker(j))
            if fail_fast and confirmed_violation(out[-1], prop):
                break
        return out
    ctx = mp.get_context("fork")
    out = []
    with ctx.Pool(nproc, maxtasksperchild=8) as pool:
        for r in pool.imap_unordered(_worker, jobs, chunksize=1):
            out.append(r)
            if fail_fast and confirmed_violation(r, prop):
                pool.terminate()
                break
    return out
