# pyvc.cli -- ./vcheck: run all contract harnesses of one property, print the verdict, write evidence + replays
import argparse
import json
import os
import re
import sys
import time

from . import findings, registry, runner, static_checks
from .core import Engine

OBL_BUDGET_S = Engine.OBL_TIMEOUT_MS // 1000

ROOT = runner.ROOT

ASSUMPTIONS_COMMON = [
    "A-py: CPython 3.12 semantics of the interpreted subset as implemented by pyvc (guarded on every run by the "
    "engine-vs-CPython cross-check: models of proved paths are re-executed natively through the same harness text)",
    "integers are mathematical (Python ints are); z3 5.1 / cvc5 1.0.3 are trusted as solvers",
    "TypeError-freedom beyond what the harness enumerates is assumed from the repo's mypy annotations",
]


def fname(f):
    f = getattr(f, "fget", f)
    f = getattr(f, "__func__", f)
    return f"{getattr(f, '__module__', '?')}.{getattr(f, '__qualname__', repr(f))}"


def safe(s):
    return re.sub(r"[^A-Za-z0-9_.=-]+", "_", s)[:150]


def main(argv=None):
    ap = argparse.ArgumentParser(prog="vcheck")
    ap.add_argument("prop", nargs="?")
    ap.add_argument("--tier", default=os.environ.get("VERIF_TIER", "quick"), choices=["quick", "thorough"])
    ap.add_argument("--seed", type=int, default=int(os.environ.get("VERIF_SEED", "0") or 0))
    ap.add_argument("--replay")
    ap.add_argument("--list", action="store_true")
    ap.add_argument("--harness", action="append", help="only harnesses whose name contains this")
    ap.add_argument("--jobs", type=int, default=None)
    ap.add_argument("--no-evidence", action="store_true")
    ap.add_argument("--replay-dir", default=None, help="where replay files go (default: <verif>/replays)")
    ap.add_argument("--verbose", "-v", action="store_true")
    ap.add_argument("--limit-family", type=int, default=None)
    ap.add_argument("--all-violations", action="store_true",
                    help="quick tier: do not stop at the first violation confirmed on the real code")
    args = ap.parse_args(argv)
    runner.load_contracts()
    if args.list:
        for n, h in sorted(registry.HARNESSES.items()):
            print(f"{n:50s} {','.join(h.props):20s} {h.strength}")
        return 0
    if args.replay:
        return replay(args.replay)
    if not args.prop:
        ap.error("property id required")
    return run_property(args)


def replay(path):
    with open(path) as f:
        rep = json.load(f)
    h = registry.HARNESSES[rep["harness"]]
    params = {k: runner.unjson(v) for k, v in rep["params_raw"].items()} if "params_raw" in rep else rep["params"]
    params = static_checks.revive_params(h, rep["params"])
    print(f"replay property={rep['property']} obligation={rep['obligation']} harness={rep['harness']} params={rep['params']}")
    if not rep.get("model_inputs"):
        print("no counter-model in this replay file (verifier gave none); verifier output:")
        print(json.dumps(rep.get("verifier_output"), indent=1)[:3000])
        return 1
    inputs = {k: runner.unjson(v) for k, v in rep["model_inputs"].items()}
    nr = runner.native_run(h, params, inputs)
    print(json.dumps({"inputs": rep["model_inputs"], "native_failed_checks": nr["failed"],
                      "native_exception": nr["exception"], "assume_failed": nr.get("assume_failed")}, indent=1))
    failed = rep["obligation"] in nr["failed"] or (rep["obligation"].startswith("no-exception-escapes") and nr["exception"])
    print("REPRODUCED" if failed else "NOT-REPRODUCED")
    return 1 if failed else 0


def run_property(args):
    prop = args.prop
    t0 = time.time()
    hs = [h for h in registry.HARNESSES.values() if prop in h.props]
    if args.harness:
        hs = [h for h in hs if any(s in h.name for s in args.harness)]
    static = static_checks.run(prop, args.tier)
    if not hs and not static:
        print(f"CHECKER-ERROR property={prop} no harness registered")
        return 3
    jobs = []
    fam_info = {}
    for h in hs:
        fam = h.family(args.tier, args.seed)
        if args.limit_family:
            fam = fam[:args.limit_family]
        fam_info[h.name] = len(fam)
        opts = {"task_timeout": 900 if args.tier == "quick" else 3600,
                "crosscheck_per_task": 2 if args.tier == "quick" else 4}
        for p in fam:
            jobs.append((h.name, p, opts))
    # longest-first is unknown; just run
    fail_fast = args.tier == "quick" and not args.all_violations
    results = runner.run_jobs(jobs, args.jobs, fail_fast=fail_fast, prop=prop)
    stopped_early = len(results) < len(jobs)
    # ---------------- aggregate
    obligations = 0
    discharged = 0
    bounded = 0
    bounded_ok = 0
    by_strength = {"P": 0, "E": 0, "B": 0}
    violations = []  # (harness, params, name, obl, replay)
    undecided = []
    errors = []
    knowns = {}
    samples = []
    backends = {}
    paths = queries = 0
    solver_s = 0.0
    slowest = (0.0, "", None)
    functions = {}
    covers_by_h = {}
    feas_by_h = {}
    xc_runs = 0
    xc_dis = []
    for r in results:
        hname = r["harness"]
        if "crash" in r:
            errors.append(f"{hname} {r['params']}: {r['crash']}\n{r.get('traceback', '')}")
            continue
        h = registry.HARNESSES[hname]
        paths += r["paths"]
        queries += r["stats"].get("queries", 0)
        solver_s += r["stats"].get("solver_s", 0.0)
        if r["stats"].get("max_obl_s", 0.0) > slowest[0]:
            slowest = (r["stats"]["max_obl_s"], f"{r.get('harness', '?')} {r['stats'].get('max_obl_name')}", r.get("params"))
        functions.update(r["functions"])
        covers_by_h.setdefault(hname, set()).update(r["covers"])
        feas_by_h[hname] = feas_by_h.get(hname, 0) + r["feasible_end"]
        xc_runs += r["crosscheck"]["runs"]
        for d in r["crosscheck"]["disagreements"]:
            xc_dis.append({"harness": hname, "params": r["params"], **d})
        if r["aborted"]:
            undecided.append(f"{hname} {r['params']}: aborted ({r['aborted']})")
        if r["n_undecided"]:
            undecided.append(f"{hname} {r['params']}: {r['n_undecided']} undecided path(s): {r['undecided'][:3]}")
        nrel = 0
        for name, o in r["obligations"].items():
            props, short = registry.obligation_props(name, h.props)
            if prop not in props:
                continue
            nrel += 1
            for b, c in o["backends"].items():
                backends[b] = backends.get(b, 0) + c
            is_b = h.strength == "B" or o["bounded_paths"] > 0
            if o["refuted"]:
                violations.append((hname, r["params"], name, o, r["replays"].get(name)))
                status = "refuted"
            elif o["unknown"]:
                undecided.append(f"{hname} {r['params']}: obligation {name}: solver unknown on {o['unknown']} path(s)")
                status = "unknown"
            else:
                status = "proved"
            for fid in o["known_ids"]:
                knowns.setdefault(fid, []).append((hname, r["params"], name))
            if is_b:
                bounded += 1
                bounded_ok += status == "proved"
                by_strength["B"] += 1
            else:
                obligations += 1
                discharged += status == "proved"
                by_strength[h.strength] += 1
            if len(samples) < 6 and status == "proved" and not name.startswith("no-exception"):
                samples.append({"harness": hname, "params": r["params"], "obligation": name, "status": status,
                                "paths_proved_on": o["proved"], "strength": "B" if is_b else h.strength,
                                "known_finding": o["known_ids"] or None})
        if nrel == 0 and not r["aborted"] and not r["n_undecided"]:
            pass
    for s in static:
        obligations += 1
        backends["ast-scan"] = backends.get("ast-scan", 0) + 1
        by_strength["P"] += 1
        if s["ok"]:
            discharged += 1
            if len(samples) < 8:
                samples.append({"static_obligation": s["name"], "status": "proved", "detail": s.get("detail")})
        else:
            violations.append(("static", {}, s["name"], {"static": s, "models": []}, None))
    # vacuity guards (not meaningful for a run that was cut short by a confirmed violation)
    for h in ([] if stopped_early else hs):
        if feas_by_h.get(h.name, 0) == 0 and not any("crash" in r for r in results if r["harness"] == h.name):
            if not any(h.name in u for u in undecided):
                errors.append(f"vacuity: harness {h.name} has no feasible completed path (canary)")
        missing = set(h.covers) - covers_by_h.get(h.name, set())
        if missing and not args.harness and not args.limit_family:
            errors.append(f"vacuity: harness {h.name} never reached cover point(s) {sorted(missing)}")
    if obligations + bounded == 0:
        errors.append("vacuity: zero obligations generated")
    for d in xc_dis:
        errors.append(f"engine-vs-CPython disagreement: {json.dumps(d)[:600]}")
    # ---------------- replays + verdict lines
    rdir = args.replay_dir or os.path.join(ROOT, "replays")
    os.makedirs(os.path.join(rdir, prop), exist_ok=True)
    lines = []
    nviol = 0
    for (hname, params, name, o, rep) in violations:
        nviol += 1
        fn = os.path.join(rdir, prop, safe(f"{hname}__{json.dumps(params, sort_keys=True)}__{name}") + ".json")
        confirmed = bool(rep and rep.get("confirmed"))
        model_inputs = None
        if rep and rep.get("attempts"):
            att = [a for a in rep["attempts"] if a.get("confirmed")] or rep["attempts"]
            model_inputs = att[0]["inputs"]
        doc = {
            "property": prop, "obligation": name, "harness": hname, "params": params,
            "functions_under_contract": [fname(f) for f in
                                         (registry.HARNESSES[hname].functions if hname in registry.HARNESSES else [])],
            "confirmed_on_real_code": confirmed, "model_inputs": model_inputs,
            "verifier_output": {"refuted_on_paths": o.get("refuted"), "models": o.get("models"), "static": o.get("static"),
                                "native_attempts": rep.get("attempts") if rep else None},
            "how_to_replay": f"./vcheck --replay {fn}",
        }
        if hname == "static":
            confirmed = True  # the failing source location *is* the witness
        with open(fn, "w") as f:
            json.dump(doc, f, indent=1)
        lines.append(f"VIOLATION property={prop} replay={fn}" + ("" if confirmed else " no-failing-input-found"))
    kf = {f["id"]: f for f in findings.open_findings()}
    for fid, where in sorted(knowns.items()):
        f = kf.get(fid, {})
        lines.append(f"KNOWN-FINDING: property={prop} {fid}: {f.get('what', '')} [{len(where)} obligation instance(s)]")
    if stopped_early:
        lines.append(f"    note: stopped after the first confirmed violation ({len(results)} of {len(jobs)} family members "
                     f"explored; --all-violations explores all)")
    for u in undecided[:20]:
        lines.append(f"UNDECIDED property={prop} {u}")
    for e in errors[:20]:
        lines.append(f"CHECKER-ERROR property={prop} {e}")
    if stopped_early and not nviol:
        errors.append("the run was cut short although no violation of this property was found (checker defect)")
        lines.append(f"CHECKER-ERROR property={prop} {errors[-1]}")
    if errors:
        code = 3
    elif nviol:
        code = 1
    elif undecided:
        code = 2
    else:
        code = 0
    if nviol:
        # a refuted obligation stands whatever else went wrong in other family members (crashes and undecided members
        # are still listed above)
        code = 1
    wall = time.time() - t0
    if code == 0:
        lines.insert(0, f"HELD property={prop} obligations={obligations} discharged={discharged} bounded={bounded_ok}/{bounded} "
                        f"paths={paths} queries={queries} solver_s={solver_s:.1f} wall_s={wall:.1f} "
                        f"slowest_obligation_s={slowest[0]:.1f}")
        if slowest[0] > 5:
            lines.append(f"    note: slowest obligation {slowest[0]:.1f}s of {OBL_BUDGET_S}s budget: {slowest[1]} {slowest[2]}")
    for ln in lines:
        print(ln)
    # ---------------- evidence
    if not args.no_evidence and not args.harness and not args.limit_family:
        level = "proof" if obligations > 0 else "other"
        try:
            claimed = {c["property_id"]: c["level_claimed"]["category"]
                       for c in json.load(open(os.path.join(ROOT, "MANIFEST.json")))["checks"]}.get(prop)
        except Exception:
            claimed = None
        if claimed == "other":
            # the behavioural obligations of this property are bounded stand-ins: the few discharged obligations beside
            # them (syntactic frame obligations, parsing contracts) do not make the property a proved one
            level = "other"
        ev = {
            "property_id": prop, "tier": args.tier, "seed": args.seed, "level": level,
            "coverage": {
                **({"obligations": obligations, "discharged": discharged} if obligations > 0 and level == "proof" else {}),
                **({"discharged_beside_the_bounded_checks": discharged, "obligations_beside_the_bounded_checks": obligations}
                   if obligations > 0 and level != "proof" else {}),
                "evaluations": paths + len(static),
                "distinct_nontrivial": obligations + bounded,
                "rule": "evaluations = symbolic paths explored (each covers every input satisfying its path condition) + "
                        "syntactic obligations; distinct_nontrivial = distinct named obligation instances (harness x "
                        "parameters x obligation) that were discharged on every path, proved and bounded together",
                "checker_cmd": f"./vcheck {prop} --tier {args.tier}",
                "trusted_base": static_checks.trusted_base(prop, hs),
                "by_strength": by_strength,
                "bounded_checks": {"count": bounded, "held": bounded_ok,
                                   "bounds": sorted({h.bound for h in hs if h.bound})},
                "backends": backends, "solver_time_s": round(solver_s, 2), "paths": paths, "queries": queries,
                "harness_families": fam_info,
                "functions_under_contract": sorted(
                    {fname(f) for h in hs for f in h.functions}),
                "functions_interpreted_from_repo_source": functions,
                "samples": samples,
                "cover_points": {k: sorted(v) for k, v in covers_by_h.items()},
                "cpython_crosscheck": {"runs": xc_runs, "disagreements": len(xc_dis)},
                "known_findings": sorted(knowns),
                "undecided": undecided[:20],
                "exhaustive": args.tier == "thorough",
                "explanation": static_checks.explanation(prop, hs),
            },
            "assumptions": ASSUMPTIONS_COMMON + static_checks.assumptions(prop, hs),
            "wall_s": round(wall, 2),
            "violations": nviol,
            "exit_code": code,
        }
        os.makedirs(os.path.join(ROOT, "evidence"), exist_ok=True)
        with open(os.path.join(ROOT, "evidence", f"{prop}.json"), "w") as f:
            json.dump(ev, f, indent=1, default=str)
    return code


if __name__ == "__main__":
    sys.exit(main())
