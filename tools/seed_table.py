#!/usr/bin/env python3
"""prints the detection table of the seeded changes (markdown) from seeded/*/meta.json"""
import glob
import json
import os

ROOT = os.path.dirname(os.path.dirname(os.path.abspath(__file__)))
rows = []
for d in sorted(glob.glob(os.path.join(ROOT, "seeded", "*"))):
    m = json.load(open(os.path.join(d, "meta.json")))
    sid = os.path.basename(d)
    summary = (m.get("summary") or "").replace("|", "/").replace("\n", " ")[:150]
    checks = m.get("checks") or {}
    caught = [p for p, v in checks.items() if v["verdict"] == "VIOLATION"]
    obligations = []
    for p, v in checks.items():
        for ln in v.get("lines", []):
            if ln.startswith("VIOLATION"):
                name = ln.split("replay=")[-1].split("/")[-1].replace(".json", "")
                ob = name.split("___")[-1][:70]
                har = name.split("___")[0]
                if (har, ob) not in obligations:
                    obligations.append((har, ob))
    status = "caught" if caught else ("not confirmed / neutralised" if m.get("confirmed") is False else "MISSED")
    what = "; ".join(f"{h}: {o}" for h, o in obligations[:2])
    rows.append(f"| {sid} | {m.get('property')} | {summary} | {status} | {what} |")
print("| seed | property | change | result | failing obligation(s) |")
print("|---|---|---|---|---|")
print("\n".join(rows))
