#!/usr/bin/env python3
"""Confirm a seeded fault (tests still pass, demo fails with / passes without) in a scratch worktree, then run the
registered checks against it on /repo itself (patch applied, undone straight afterwards).
usage: tools/seed_eval.py <seed-id> [--props C01,C02] [--skip-confirm]"""
import json
import os
import subprocess
import sys
import tempfile

ROOT = os.path.dirname(os.path.dirname(os.path.abspath(__file__)))


def sh(cmd, **kw):
    return subprocess.run(cmd, shell=True, capture_output=True, text=True, **kw)


def main():
    sid = sys.argv[1]
    d = os.path.join(ROOT, "seeded", sid)
    meta = json.load(open(os.path.join(d, "meta.json")))
    props = meta.get("check_properties") or [meta["property"]]
    for a in sys.argv[2:]:
        if a.startswith("--props"):
            props = a.split("=", 1)[1].split(",")
    patch = os.path.join(d, "patch.diff")
    if os.path.exists(os.path.join(d, "patch.current.diff")):
        patch = os.path.join(d, "patch.current.diff")
    if "--skip-confirm" not in sys.argv:
        wt = tempfile.mkdtemp(prefix="sv_", dir="/tmp")
        os.rmdir(wt)
        assert sh(f"git -C /repo worktree add -q --detach {wt} HEAD").returncode == 0
        try:
            env = dict(os.environ, PYTHONPATH=wt)
            sh(f"mkdir -p {wt}/seed1 && cp {d}/demo.py {wt}/seed1/demo.py")  # same layout as when it was written
            r0 = sh(f"cd {wt} && /venv/bin/python seed1/demo.py", env=env)
            ap = sh(f"git -C {wt} apply {patch}")
            if ap.returncode != 0:
                ap = sh(f"git -C {wt} apply -3 {patch}")
            if ap.returncode != 0:
                print("patch does not apply:", ap.stderr[:500])
                meta["confirmed"] = False
                meta["confirm_note"] = "patch does not apply to current /repo HEAD"
            else:
                t = sh(f"cd {wt} && /venv/bin/python -m pytest -q -p no:cacheprovider --timeout=900 2>&1 | tail -1", env=env)
                r1 = sh(f"cd {wt} && /venv/bin/python seed1/demo.py", env=env)
                meta["confirm"] = {"demo_exit_clean": r0.returncode, "demo_exit_with_change": r1.returncode,
                                   "tests_with_change": t.stdout.strip()}
                meta["confirmed"] = r0.returncode == 0 and r1.returncode != 0 and "failed" not in t.stdout and \
                    "passed" in t.stdout
                if not patch.endswith("patch.current.diff"):
                    sh(f"git -C {wt} diff -- odxtools > {d}/patch.current.diff")
            print("confirm:", meta.get("confirm"), meta.get("confirmed"))
        finally:
            sh(f"git -C /repo worktree remove --force {wt}")
    if "--wt" in sys.argv:
        # evaluation in a scratch worktree (several seeds in parallel, /repo stays clean); the table of DESIGN.md is
        # made from runs against /repo itself
        use = os.path.join(d, "patch.current.diff") if os.path.exists(os.path.join(d, "patch.current.diff")) else patch
        wt = tempfile.mkdtemp(prefix="sw_", dir="/tmp")
        os.rmdir(wt)
        assert sh(f"git -C /repo worktree add -q --detach {wt} HEAD").returncode == 0
        results = {}
        try:
            assert sh(f"git -C {wt} apply {use}").returncode == 0
            env = dict(os.environ, PYTHONPATH=wt, PYVC_REPO=wt)
            for p in props:
                r = sh(f"cd {ROOT} && ./vcheck {p} --no-evidence --replay-dir {wt}/replays 2>&1 | cut -c1-400", env=env)
                allout = r.stdout.strip().splitlines()
                lines = [l for l in allout if l.startswith(("VIOLATION", "HELD"))] + \
                        [l for l in allout if not l.startswith(("VIOLATION", "HELD"))]
                verdict = "VIOLATION" if any(l.startswith("VIOLATION") for l in lines) else (
                    "HELD" if any(l.startswith("HELD") for l in lines) else "OTHER")
                results[p] = {"verdict": verdict, "lines": lines[:6]}
                print(sid, p, verdict)
                for l in lines[:4]:
                    print("   ", l[:300])
        finally:
            sh(f"git -C /repo worktree remove --force {wt}")
        meta["checks"] = results
        meta["detected"] = any(v["verdict"] == "VIOLATION" for v in results.values())
        json.dump(meta, open(os.path.join(d, "meta.json"), "w"), indent=1)
        return
    # run the checks on /repo with the patch applied
    st = sh("git -C /repo status --porcelain -- odxtools")
    assert st.stdout.strip() == "", "/repo has uncommitted changes"
    use = os.path.join(d, "patch.current.diff") if os.path.exists(os.path.join(d, "patch.current.diff")) else patch
    ap = sh(f"git -C /repo apply {use}")
    results = {}
    try:
        if ap.returncode != 0:
            print("cannot apply to /repo:", ap.stderr[:300])
        else:
            for p in props:
                r = sh(f"cd {ROOT} && ./vcheck {p} --no-evidence 2>&1 | cut -c1-400")
                allout = r.stdout.strip().splitlines()
                # verdict lines first (a long list of UNDECIDED members must not push the VIOLATION lines out)
                lines = [l for l in allout if l.startswith(("VIOLATION", "HELD"))] + \
                        [l for l in allout if not l.startswith(("VIOLATION", "HELD"))]
                verdict = "VIOLATION" if any(l.startswith("VIOLATION") for l in lines) else (
                    "HELD" if any(l.startswith("HELD") for l in lines) else "OTHER")
                results[p] = {"verdict": verdict, "lines": lines[:6]}
                print(p, verdict)
                for l in lines[:4]:
                    print("   ", l[:300])
    finally:
        sh("git -C /repo checkout -- odxtools")
    meta["checks"] = results
    meta["detected"] = any(v["verdict"] == "VIOLATION" for v in results.values())
    json.dump(meta, open(os.path.join(d, "meta.json"), "w"), indent=1)


if __name__ == "__main__":
    main()
