#!/usr/bin/env python3
"""writes /verif/MANIFEST.json from the table below (kept in one place so that it stays valid)"""
import json
import os

ROOT = os.path.dirname(os.path.dirname(os.path.abspath(__file__)))
TRUST = ("Trusted base: pyvc's encoding of the interpreted Python subset (cross-checked against CPython on every run by "
         "re-executing models of proved paths natively), z3/cvc5, the assumed contracts named in the evidence file "
         "(A-bitstruct, A-float, A-codec, A-lib) and the written composition arguments (A-compose). Strength labels: "
         "P = all quantities symbolic; E = finite description scalars enumerated (quick: seeded sample incl. boundary "
         "values, thorough: larger/whole domain); B = bounded stand-in, reported separately, never counted as proved.")

CHECKS = {
    "C01": ("leaf level: real encoder and real decoder are each proved against one wire-format specification "
            "(spec/wire.py) for every value and every PDU state, and the specification round-trip lemma val(raw(v))=v is "
            "proved, so decoding what was encoded returns the value and consumes exactly what was produced, for all 8 "
            "base types x encodings x byte orders x bit positions (E) and all values/positions/PDU contents (P).",
            "contracts on EncodeState.emplace_atomic_value/emplace_bytes and DecodeState.extract_atomic_value + "
            "round-trip lemma over the spec; VCs from the real AST; z3"),
    "C02": ("every bit of the PDU after emplace_atomic_value is pinned by a whole-view postcondition (claimed bits = "
            "field content by the ODX rule, unclaimed bits of the group and all other bytes unchanged/zero-extended, "
            "used-bit mask, cursor, overlap warning iff a claimed bit was already used); extract_atomic_value reads "
            "exactly those bits. Both sides are compared with an independently written specification, so symmetric "
            "encoder/decoder errors are caught. Back-end independence: every bitstruct call site is proved to satisfy "
            "the common precondition of both back ends (assumed contract A-bitstruct), else a foreign exception path "
            "is reported.",
            "whole-view postconditions of the leaf encoder/decoder against spec/wire.py; loop invariants for the BCD "
            "helpers used through call-site contracts; z3"),
    "C03": ("leaf level: extract_atomic_value returns val(bits) and emplace_atomic_value places raw(v); lemma "
            "raw(val(r)) = r for canonical field contents (negative zero and BCD nibbles > 9 excluded) gives decode -> "
            "re-encode identity on the described bits.",
            "leaf decoder contract + canonical-form lemma over the spec; z3"),
    "C04": ("exceptional postcondition of the leaf encoder for every base type and every dynamic type of the value: "
            "only odxtools errors escape; normal exit implies representability (no wrap/truncate/pad), exact length for "
            "byte fields and strings.",
            "exceptional + normal postconditions on emplace_atomic_value, value type enumerated, value symbolic; z3"),
    "C05": ("exceptional postcondition of the leaf decoder on arbitrary bytes of arbitrary length: DecodeError iff the "
            "PDU ends before the object, nothing else escapes (UnicodeDecodeError included), never completed with "
            "invented bytes.",
            "exceptional postcondition on extract_atomic_value with the message a symbolic array of symbolic length; z3"),
    "C08": ("leaf level: every successful leaf encoding advances the cursor by exactly ceil((bit position + bit "
            "length)/8) bytes and claims exactly bit-length bits (static clause of the Codec contract).",
            "static-length clause of the leaf contracts; z3"),
    "C12": ("decode_rx_frame (passive and active decoder) is proved equal to the ISO 15765-2 step specification for "
            "every frame (0..64 arbitrary bytes) in every cell state with a whole-state frame clause; lemmas over the "
            "specification (any payload 1..4095, any frame size 8..64, arbitrary padding, induction over the "
            "consecutive-frame index, transparency of flow-control/foreign frames) give: exactly the transmitted "
            "payload, once, at the last frame. The active decoder answers every first frame with exactly one "
            "clear-to-send frame on the paired id. Candump text logs: read_telegrams() is interpreted on concrete lines "
            "of the three log formats (regular expressions run natively) and must hand exactly the denoted frames to "
            "decode_rx_frame in file order.",
            "per-frame contract of decode_rx_frame as refinement of a declarative step function + inductive lemmas "
            "over the contract + bounded 2/3-frame sequences guarding hidden state + enumerated log lines; z3"),
    "C13": ("with precondition `true` on the frame and any cell state satisfying the representation invariant, "
            "decode_rx_frame never raises, preserves the invariant and equals the step specification; the "
            "ghost-accumulator lemma shows every report is a single-frame payload or the announced-length prefix of "
            "first frame + in-sequence consecutive frames, after which the cell is idle; the first-frame lemma holds "
            "from any cell state (recovery). The history quantifier is discharged by invariant. The snoop tool: the "
            "verbose decoder class it instantiates obeys the same per-frame specification, uds.is_response_pending is "
            "total and exact on any payload, handle_telegram never raises over a layer obeying the decode interface "
            "contract, nor over a real layer whose service carries one of the real end-to-end descriptions (payload of "
            "0..6 arbitrary bytes, bounded).",
            "total contract (precondition true) with exceptional postcondition 'raises nothing' + ghost-state lemma; z3"),
    "C17": ("contracts of odxraise/odxassert/odxrequire with the flag symbolic and read at call time; a reads-frame "
            "obligation per module of odxtools/** (the flag is never copied at import time); string decoding obeys the "
            "flag at call time.",
            "contracts on the three error helpers + syntactic reads-frame obligation over every module + leaf decoder "
            "with symbolic flag; z3 / AST scan"),
}

CHECKS.update({
    "C07": ("contracts on the LINEAR, SCALE-LINEAR, TAB-INTP, RAT-FUNC, TEXTTABLE and IDENTICAL compu methods with "
            "coefficients, limits and values symbolic (reals/integers): conversion = the exact ODX formula (nearest "
            "integer for integer types), validity = admissible type and inside the limits with OPEN/CLOSED/INFINITE "
            "honoured, image of a valid internal value valid and converting back where injective, valid physical "
            "values convert without error, monotone continuous piecewise-linear methods can always encode. Type pairs, "
            "interval types and presence of optional parts enumerated (E); number of scales / table points / "
            "polynomial degree bounded (B). SCALE-RAT-FUNC: internal-to-physical direction over two scales (B); parsing of "
            "number texts and of scales from XML (E). COMPU-CODE is not under contract.",
            "pre/postconditions of the compu-method functions against exact real-arithmetic specifications "
            "(spec/compu.py), float treated as real (A-float); z3 nonlinear real arithmetic"),
    "C10": ("contracts on the reference machinery: OdxLinkDatabase.resolve/resolve_lenient (object of the innermost "
            "fragment carrying the id, error in strict mode when dangling or of the wrong type, database unchanged), "
            "update (whole-map postcondition, overwrite flag), OdxLinkRef.from_et (DOCREF vs referring fragments), "
            "OdxLinkId equality/hash, resolve_snref (unique name or error), retarget_snrefs (every layer reachable "
            "through parent references re-resolved against the target), the nine SNREF call sites the property names "
            "(bound to the uniquely named object of the prescribed collection or error in strict mode), and a syntactic "
            "frame obligation: no function mutates the document-fragment list it is handed. Which reference each of the "
            "~150 _resolve_odxlinks methods passes is plumbing that is not decided here.",
            "pre/postconditions with whole-map frame clauses on the odxlink functions; presence/type of entries "
            "symbolic, fragment shapes enumerated; z3"),
    "C16": ("representation invariant of NamedItemList (one name per position, names are the unique identifier-safe "
            "short names, no shadowing, lookups agree) proved to be preserved by every public operation from an "
            "arbitrary invariant-satisfying pre-state (built directly, not through the code), with the list effect of "
            "the `list` operation; invariant + per-operation proof covers every history. Pre-state size and name "
            "alphabet bounded (B).",
            "data-structure invariant + per-operation pre/postconditions (abstract view = plain list + name map); "
            "pre-states enumerated through the solver; z3"),
})

CHECKS.update({
    "C06": ("the real prefix-tree construction, candidate search, layer decoding and DiagService.decode_message run on "
            "real layer/service objects whose coding objects are ghosts (constant prefix from an alphabet with empty, "
            "shared and nested prefixes; abstract decoding outcome); obligation: the reported set = exactly the "
            "services with a matching coding object or applicable global negative response, DecodeError iff none. One "
            "open finding (services without constant prefix are never found) is listed in known_findings.json. "
            "The constant prefix computed by the real composite_codec_get_coded_const_prefix is a prefix of every PDU of "
            "six real descriptions (also for partially known requests and after earlier questions on the same object); "
            "ServiceBinner files a service under the first byte of its request (coded constants symbolic). With real "
            "requests and responses below the layer (shared prefix, differing lengths, reserved tail, NRC-CONST followed "
            "by an unpositioned parameter) every message of 0..5 bytes is attributed to exactly the matching "
            "descriptions with the values its bytes hold, and own encodings come back with the original values.",
            "pre/postcondition of DiagLayer.decode / DiagService.decode_message against a declarative attribution "
            "specification, children by interface contract; message symbolic; z3"),
    "C09": ("the real _compute_available_objects (recursive) and priority sort run on real HierarchyElement/DiagLayer "
            "objects carrying ghost raw data; whole-view postcondition against the ISO 22901-1 7.3.2.4 rule written "
            "declaratively per short name; frame obligation: no layer is altered, a parent's own view is unchanged. "
            "The real _finalize_init runs on a two-layer hierarchy with 17 object categories and symbolic NOT-INHERITED "
            "lists: every category inherits its own objects minus the list that governs that category, also after a "
            "second refresh with changed raw data; three real raw layers with real PARENT-REFs and an ODXLINK database "
            "go through _resolve_odxlinks and _finalize_init twice.",
            "whole-view postcondition + frame condition of the value-inheritance function; presence, equality and "
            "NOT-INHERITED flags symbolic, hierarchy shapes enumerated; z3"),
    "C14": ("the real VariantMatcher (request_loop generator driven through a consumer hook, evaluate, cache handling, "
            "_ident_response_matches) runs over ghost patterns/parameters/services with symbolic match facts and a "
            "deterministic ECU; postcondition: first candidate in list order with a fully matching pattern, same "
            "outcome with and without cache, only candidates' requests, no request twice with the cache; "
            "identification requests are encoded by the real DiagService.encode_request; real EcuVariantPattern / "
            "BaseVariantPattern objects with real matching parameters match iff every expected value is reported as "
            "written; MatchingParameter.matches on concrete value shapes.",
            "postcondition of the matcher against a declarative first-match specification with symbolic match facts; z3"),
    "C15": ("the real _compute_available_commmunication_parameters (whole-map postcondition keyed by specification id "
            "and protocol), get_comparam (protocol-specific before generic), ComparamInstance.get_value/get_subvalue "
            "(defaults of the specification) and ten typed accessors (numeric content of the comparam the ISO tables "
            "name); ComplexComparam.from_et / create_complex_value_from_et on concrete documents keep sub-parameters and "
            "sub-values at their document positions.",
            "whole-map postcondition of comparam inheritance + contracts of lookup and accessors; presence symbolic; z3"),
    "C18": ("Comparison.compare_diagnostic_layers / compare_services / compare_parameters: identity reports nothing and "
            "a single add / delete / rename / parameter change is reported as exactly that for exactly that service; "
            "compare_parameters lists exactly the differing attributes (including changes of the linked DOP object); "
            "print_dl_metrics reports the actual counts (rich table as ghost rows), also for a layer that went through "
            "the real inheritance; services told apart by a PHYS-CONST of real requests keep their identity.",
            "postconditions of the comparison functions for single edits; z3 / concrete evaluation through the interpreter"),
})

E2E = (" Above the leaf: (a) composite level - the real BasicStructure/Request/Response encode/decode loops over abstract "
       "parameters that satisfy the Codec interface contract (paired encode/decode harness); (b) end-to-end - 57 real "
       "parameter descriptions built natively (coded constants, value parameters with IDENTICAL/LINEAR methods, reserved, "
       "matching-request, NRC-const, physical constants, system parameters, nested structures, end-of-PDU / static / "
       "dynamic-length / dynamic-endmarker fields, MIN-MAX-LENGTH, LEADING-LENGTH-INFO, PARAM-LENGTH-INFO with length "
       "keys, multiplexer, TABLE-KEY/TABLE-STRUCT, DTC DOPs, environment data descriptions) are "
       "built by the real constructors and resolved by the library's own _resolve_odxlinks/_resolve_snrefs, then "
       "run through the real Request/Response.encode and decode with values and message bytes symbolic; these are "
       "labelled B (57 concrete descriptions, field/byte-field lengths bounded; values symbolic) and are reported as "
       "bounded checks, never counted as proved; for 19 descriptions the PDU is compared with an independently "
       "written wire image (17 descriptions), and decoded values must be backed by the bytes of the message. "
       "(c) unbounded (P): byte fields of symbolic length through the real extract_atomic_value / emplace_atomic_value, "
       "and the real MinMaxLengthType.decode_from_pdu / encode_into_pdu on the real states with PDU, value, MIN/MAX-LENGTH "
       "and cursor of any size (inductive invariants + variants on both search loops, bytes.find by specification).")
for k in ("C01","C02","C03","C04","C05","C08"):
    CHECKS[k] = (CHECKS[k][0] + E2E, CHECKS[k][1] + "; Codec interface contract for composites; end-to-end harnesses over real descriptions; inductive loop invariants for MIN-MAX-LENGTH objects of any length")
CHECKS["C17"] = (CHECKS["C17"][0] + " Restoration: whatever passes in strict mode gives the same result in lenient mode "
                 "(encode and decode of the end-to-end descriptions run twice, results compared), and switching the flag "
                 "back restores the error.", CHECKS["C17"][1] + "; 2-run comparison harness over the end-to-end descriptions")

NOT_APPLICABLE = {
    "C11": "PDX write->load round trip is a property of Jinja2 template text plus the ElementTree infoset; neither is "
           "Python code on which a contract can be stated or from which a VC can be generated (DESIGN.md 5 C11)",
}
BOUNDED_ONLY = {"C16", "C06", "C09"}
PENDING = []


def main():
    checks = []
    for pid, (text, tech) in sorted(CHECKS.items()):
        checks.append({
            "property_id": pid,
            "quick_cmd": f"./vcheck {pid} --tier quick",
            "thorough_cmd": f"./vcheck {pid} --tier thorough",
            "evidence_file": f"/verif/evidence/{pid}.json",
            "replay_cmd_template": "./vcheck --replay {path}",
            "engine": "pyvc",
            "technique": "contract-based deductive verification: " + tech,
            "level_claimed": {"category": "other" if pid in BOUNDED_ONLY else "proof",
                              "design_ref": f"DESIGN.md section 5 ({pid})",
                              "text": ("BOUNDED STAND-IN (the behavioural obligations are bounded checks and nothing of them is counted as proved; syntactic frame obligations and parsing contracts beside them are reported separately in the evidence): " if pid in BOUNDED_ONLY else "") + text},
            "level_note": TRUST,
        })
    na = [{"property_id": k, "reason": v} for k, v in sorted(NOT_APPLICABLE.items())]
    for p in PENDING:
        if p not in CHECKS:
            na.append({"property_id": p, "reason": "contracts for this property are not built yet in this session "
                       "(planned, see DESIGN.md); nothing is claimed for it at this commit"})
    m = {
        "version": 1,
        "setup_cmd": "./setup.sh",
        "hooks": {
            "guard": "ODXTOOLS_VERIF (unused: the verifier reads /repo's sources as they are; no hook was added)",
            "enable": "none needed",
            "baseline_off_cmd": "cd /repo && /venv/bin/python -m pytest -ra -q -p no:cacheprovider --timeout=900 "
                                "--continue-on-collection-errors",
            "source_commits": [],
            "add_only": True,
        },
        "engines": [{
            "name": "pyvc", "path": "/verif/pyvc", "serves_properties": sorted(CHECKS),
            "kind_free_text": "sidecar contracts on the real odxtools functions + own verification-condition generator "
                              "(symbolic execution of the real AST read from /repo on every run, path by path, loops by "
                              "invariant or unrolled to a stated bound, callees by contract where registered) discharged "
                              "by z3 5.1 with cvc5 1.0.3 as second back end; counter-models replayed natively against "
                              "the real code through the same harness text",
        }],
        "checks": checks,
        "not_applicable": sorted(na, key=lambda x: x["property_id"]),
        "notes": "known_findings.json lists the genuine defects found: repaired ones (fix: commits) and the open ones (C06 services without constant prefix; C04/C08 STANDARD-LENGTH-TYPE bit masks; C01 TABLE-KEY with static row), each matched by obligation + witness class.",
    }
    with open(os.path.join(ROOT, "MANIFEST.json"), "w") as f:
        json.dump(m, f, indent=1)
    print("MANIFEST.json written:", len(checks), "checks,", len(na), "not applicable/pending")


if __name__ == "__main__":
    main()
