#!/usr/bin/env python3
"""replaces section 8.1 of DESIGN.md by the table tools/seed_table.py prints"""
import os
import subprocess

ROOT = os.path.dirname(os.path.dirname(os.path.abspath(__file__)))
table = subprocess.run(["python3", os.path.join(ROOT, "tools", "seed_table.py")], capture_output=True, text=True).stdout
p = os.path.join(ROOT, "DESIGN.md")
s = open(p).read()
a = s.index("### 8.1 Detection table")
b = s.index("## 9. Deviations from the plan")
n = table.count("\n| C")
caught = table.count("| caught |")
missed = table.count("| MISSED |")
s = s[:a] + "### 8.1 Detection table\n\n" + f"{caught} of {n} changes are caught by the quick check of their own property; " \
    f"{'none is' if missed == 0 else str(missed) + (' is' if missed == 1 else ' are')} missed (a miss would be marked MISSED), " \
    f"{n - caught - missed} neutralised by a later fix commit (marked so).  Rows of earlier rounds show the result of the " \
    f"evaluation at the end of their round or of a later re-run; rows of the last round the final state of the checks.\n\n" + \
    table + "\n" + s[b:]
open(p, "w").write(s)
print(n, caught)
