# Contracts for the comparison and listing tools (property C18): odxtools/cli/compare.py, odxtools/cli/_print_utils.py
from dataclasses import dataclass, field, replace
from typing import Any, List

from odxtools.cli._print_utils import print_dl_metrics
from odxtools.cli.compare import Comparison
from odxtools.diaglayers.diaglayer import DiagLayer
from odxtools.diaglayers.diaglayertype import DiagLayerType
from odxtools.odxtypes import DataType
from odxtools.parameters.codedconstparameter import CodedConstParameter
from odxtools.parameters.valueparameter import ValueParameter
from odxtools.standardlengthtype import StandardLengthType
from pyvc.api import H
from pyvc.registry import harness


def dct(bits=8, dt=DataType.A_UINT32):
    return StandardLengthType(base_data_type=dt, base_type_encoding=None, bit_length=bits, bit_mask=None,
                              is_highlow_byte_order_raw=None, is_condensed_raw=None)


def coded_const(name, value, byte_position=None, bits=8, semantic=None, dt=DataType.A_UINT32):
    return CodedConstParameter(oid=None, short_name=name, long_name=None, description=None, semantic=semantic,
                               diag_coded_type=dct(bits, dt), coded_value=value, byte_position=byte_position,
                               bit_position=None, sdgs=[])


@dataclass
class GRequest:
    short_name: str
    prefix: bytes
    parameters: List[Any]

    def coded_const_prefix(self, request_prefix=b""):
        return self.prefix


@dataclass
class GService:
    short_name: str
    request: Any
    positive_responses: List[Any] = field(default_factory=list)
    negative_responses: List[Any] = field(default_factory=list)


class GLayer:

    def __init__(self, name, services):
        self.short_name = name
        self.variant_type = DiagLayerType.BASE_VARIANT
        self.services = services


def mk_service(i, name=None, value=None):
    sid = 0x10 + i
    return GService(name or f"svc{i}",
                    GRequest(f"rq{i}", bytes([sid]), [coded_const("sid", sid, 0),
                                                      coded_const("sub", 1 if value is None else value, 1)]))


def mk_routine(i, name=None):
    """a service of a family that shares the SID and is told apart by a PHYS-CONST sub-function; the request is a real
    Request, so the identity the tool derives (coded_const_prefix) is computed by the real code"""
    from contracts import build as B
    rq = B.request([B.coded_const("sid", 0x31, 0), B.phys_const("routine", B.dop("u8r", 8), str(i + 1), 1),
                    B.value_param("arg", B.dop("u8a", 8), 2)], name=f"rq{i}")
    return GService(name or f"routine{i}", rq)


def mk_nibbles(i, name=None):
    """services told apart by a byte that two coded constants of four bits each make up"""
    from contracts import build as B
    rq = B.request([B.coded_const("sid", 0x31, 0), B.coded_const("hi", (i + 1) % 16, 1, 4, bit_position=4),
                    B.coded_const("lo", 0xB, 1, 4, bit_position=0), B.value_param("arg", B.dop("u8a", 8), 2)],
                   name=f"rq{i}")
    return GService(name or f"routine{i}", rq)


EDITS = ["none", "add", "delete", "rename", "change-param"]


def _fam(tier, seed):
    return [{"k": k, "edit": e, "requests": "ghost"} for k in ((1, 2, 3) if tier == "quick" else (1, 2, 3, 4))
            for e in EDITS] + \
           [{"k": 2, "edit": e, "requests": r} for e in ("none", "add", "delete", "rename")
            for r in ("real-phys-const", "real-nibble-consts")]


@harness(props=["C18"], strength="B", family=_fam,
         bound="layers of 1..3 (quick) / 1..4 (thorough) services; one edit (none / add / delete / rename / change one "
         "parameter) applied to a picked service",
         functions=[Comparison.compare_diagnostic_layers, Comparison.compare_services, Comparison.compare_parameters],
         covers=["done"])
def single_edit_is_reported_as_such(k, edit, requests):
    """compare(new, old): no change for identical layers; an added / deleted / renamed service or a changed parameter is
    reported as exactly that kind of change for exactly that service"""
    mk = mk_service if requests == "ghost" else (mk_routine if requests == "real-phys-const" else mk_nibbles)
    old = GLayer("layer", [mk(i) for i in range(k)])
    idx = H.pick("which", list(range(k)))
    new_services = [mk(i) for i in range(k)]
    target_old = old.services[idx]
    expect = {"new": [], "deleted": [], "renamed": [], "changed": []}
    if edit == "add":
        pos = H.pick("insert_at", list(range(k + 1)))
        added = mk(9, "brand_new")
        new_services.insert(pos, added)
        expect["new"] = [added]
    elif edit == "delete":
        del new_services[idx]
        expect["deleted"] = [target_old]
    elif edit == "rename":
        new_services[idx] = mk(idx, name="renamed")
        expect["renamed"] = [(new_services[idx], target_old.short_name)]
    elif edit == "change-param":
        new_services[idx] = mk_service(idx, value=2)
        expect["changed"] = [new_services[idx]]
    new = GLayer("layer", new_services)
    cmp = Comparison()
    r = cmp.compare_diagnostic_layers(new, old)
    H.cover("done")
    H.check("C18:added-services-are-exactly-the-new-services",
            [id(s) for s in r["new_services"]] == [id(s) for s in expect["new"]])
    H.check("C18:deleted-services-are-exactly-the-deleted-services",
            [id(s) for s in r["deleted_services"]] == [id(s) for s in expect["deleted"]])
    H.check("C18:renamed-services-are-exactly-the-renamed-services-with-their-old-name",
            [(id(s), n) for s, n in zip(r["changed_name_of_service"][0], r["changed_name_of_service"][1])] ==
            [(id(s), n) for (s, n) in expect["renamed"]])
    H.check("C18:services-with-parameter-changes-are-exactly-those-changed",
            [id(s) for s in r["changed_parameters_of_service"][0]] == [id(s) for s in expect["changed"]])


ATTRS = ["none", "short_name", "byte_position", "bit_length", "semantic", "coded_value", "data_type",
         "linked_dop_bit_length", "linked_dop_name", "linked_dop_physical_type", "default_value"]


IN_PLACE = {"short_name": "Parameter name", "byte_position": "Byte position", "bit_length": "Bit Length",
            "semantic": "Semantic", "coded_value": "Value", "data_type": "Data type"}


def _edit_in_place(p, attr):
    if attr == "short_name":
        p.short_name = "q"
    elif attr == "byte_position":
        p.byte_position = 2
    elif attr == "bit_length":
        p.diag_coded_type.bit_length = 16
    elif attr == "semantic":
        p.semantic = "OTHER"
    elif attr == "coded_value":
        p.coded_value = 6
    elif attr == "data_type":
        p.diag_coded_type.base_data_type = DataType.A_INT32


@harness(props=["C18"], strength="E", family=lambda t, s: [{"attr": a} for a in ATTRS] +
         [{"attr": a, "how": "edited-in-place"} for a in IN_PLACE],
         functions=[Comparison.compare_parameters], covers=["done"])
def parameter_comparison(attr, how="rebuilt"):
    """compare_parameters lists exactly the attributes on which the two parameters differ - whether the second
    parameter was built with the other value or is a copy whose attribute was changed afterwards (the way the example
    script that derives a modified database edits it)"""
    if how == "edited-in-place":
        p1 = coded_const("p", 5, 1, 8, "DATA")
        p2 = coded_const("p", 5, 1, 8, "DATA")
        p2.get_static_bit_length()  # (the objects have been in use before the edit)
        _edit_in_place(p2, attr)
        r = Comparison().compare_parameters(p1, p2)
        H.cover("done")
        H.check("C18:exactly-the-differing-attributes-are-listed", r["Property"] == [IN_PLACE[attr]])
        return
    if attr in ("linked_dop_bit_length", "linked_dop_name", "linked_dop_physical_type", "default_value"):
        return _dop_parameter_comparison(attr)
    p1 = coded_const("p", 5, 1, 8, "DATA")
    kw = {"name": "p", "value": 5, "byte_position": 1, "bits": 8, "semantic": "DATA", "dt": DataType.A_UINT32}
    expected = []
    if attr == "short_name":
        kw["name"] = "q"
        expected = ["Parameter name"]
    elif attr == "byte_position":
        kw["byte_position"] = 2
        expected = ["Byte position"]
    elif attr == "bit_length":
        kw["bits"] = 16
        expected = ["Bit Length"]
    elif attr == "semantic":
        kw["semantic"] = "OTHER"
        expected = ["Semantic"]
    elif attr == "coded_value":
        kw["value"] = 6
        expected = ["Value"]
    elif attr == "data_type":
        kw["dt"] = DataType.A_INT32
        expected = ["Data type"]
    p2 = coded_const(**kw)
    r = Comparison().compare_parameters(p1, p2)
    H.cover("done")
    H.check("C18:exactly-the-differing-attributes-are-listed", r["Property"] == expected)
    H.check("C18:one-old-and-one-new-value-per-listed-attribute",
            len(r["Old Value"]) == len(expected) and len(r["New Value"]) == len(expected))


class NamedThing:

    def __init__(self, short_name):
        self.short_name = short_name


class GDDDS:

    def __init__(self, n):
        self.data_object_props = list(range(n))


class GMetricLayer(DiagLayer):
    pass


class GRaw:
    pass


@harness(props=["C18"], strength="E",
         family=lambda t, s: [{"nsvc": a, "ndop": b, "ncp": c} for a in (0, 2) for b in (0, 3) for c in (0, 4)],
         functions=[print_dl_metrics], covers=["done"], crosscheck=False)
def layer_overview_counts(nsvc, ndop, ncp):
    """print_dl_metrics reports the actual numbers of services, data objects and communication parameters"""
    L = GMetricLayer.__new__(GMetricLayer)
    raw = GRaw()
    raw.short_name = "layer"
    raw.variant_type = DiagLayerType.BASE_VARIANT
    raw.services = [mk_service(i) for i in range(nsvc)]
    L.diag_layer_raw = raw
    L._diag_data_dictionary_spec = GDDDS(ndop)
    # (the same parameter may apply several times - for several protocols: every instance counts)
    L.comparam_refs = [NamedThing(f"CP_{i // 2}") for i in range(ncp)]
    print_dl_metrics([L])
    rows = H.events("table_row")
    H.cover("done")
    H.check("C18:one-row-per-layer", len(rows) == 1)
    if len(rows) == 1:
        row = rows[0][0]
        H.check("C18:overview-reports-the-actual-counts",
                list(row) == ["layer", "BASE-VARIANT", str(nsvc), str(ndop), str(ncp)])


def _dop_parameter_comparison(attr):
    from contracts import build as B
    d1 = B.dop("d", 8)
    p1 = B.value_param("p", d1, 1, default="3")
    B.request([p1], name="rq1")  # (the library resolves the DOP reference and the default value)
    # the second parameter has identical fields (same DOP-REF!) - only the resolved DOP object differs
    if attr == "linked_dop_bit_length":
        d2 = B.dop("d", 16)
        expected = ["Bit Length", "Linked DOP object"]
    elif attr == "linked_dop_name":
        d2 = B.dop("d", 8)
        d2.short_name = "other"
        expected = ["Linked DOP object", " DOP name"]
    elif attr == "linked_dop_physical_type":
        d2 = B.dop("d", 8, phys_dt=DataType.A_INT32)
        expected = ["Linked DOP object", " DOP physical data type"]
    else:
        d2 = d1
        expected = ["Default value"]
    p2 = B.value_param("p", d2, 1, default="4" if attr == "default_value" else "3")
    if d2 is d1:
        B.note(d1)
    B.request([p2], name="rq2")
    r = Comparison().compare_parameters(p1, p2)
    H.cover("done")
    H.check("C18:exactly-the-differing-attributes-are-listed", r["Property"] == expected)


# the overview of a layer that really went through inheritance: the numbers are those of the view ISO 22901-1
# prescribes (services and data objects of the parent plus the local ones; communication parameters per specification
# and protocol, the local definition overriding the inherited one with the same key only)
from contracts import hierarchy as HY  # noqa: E402
from odxtools.diaglayers.hierarchyelement import HierarchyElement  # noqa: E402


@harness(props=["C18"], strength="B",
         family=lambda t, s: [{"child_protocol": a, "parent_protocol": b} for a in (None, "UDS") for b in (None, "UDS")],
         bound="a base variant with one protocol parent; one communication parameter defined in both layers with or "
         "without protocol qualifier",
         functions=[print_dl_metrics, HierarchyElement._finalize_init,
                    HierarchyElement._compute_available_commmunication_parameters], covers=["done"], crosscheck=False)
def overview_of_an_inheriting_layer(child_protocol, parent_protocol):
    """print_dl_metrics on a layer after inheritance reports the numbers of the inherited view"""
    parent = HY._full_layer("pr", "PR", True, ["p", "q", "j"])
    child = HY._full_layer("bv", "BV", True, ["r"])
    spec = HY.mk_spec("CP_X", "1")
    parent.diag_layer_raw.comparam_refs = [HY.mk_instance(spec, "cp.CP_X", "2", parent_protocol)]
    child.diag_layer_raw.comparam_refs = [HY.mk_instance(spec, "cp.CP_X", "3", child_protocol)]
    ref = HY.GhostFullParentRef(parent)
    for lst in HY.EXCLUSION_LISTS:
        setattr(ref, lst, [])
    child.diag_layer_raw.parent_refs.append(ref)
    parent._finalize_init(None, None)
    child._finalize_init(None, None)
    print_dl_metrics([child])
    rows = H.events("table_row")
    H.cover("done")
    n_cp = 1 if child_protocol == parent_protocol else 2
    H.check("C18:overview-reports-the-numbers-of-the-inherited-view",
            len(rows) == 1 and list(rows[0][0]) == ["bv", "BASE-VARIANT", "3", "4", str(n_cp)])
