# Contracts for MIN-MAX-LENGTH-TYPE (odxtools/minmaxlengthtype.py) with nothing bounded: the real decode_from_pdu and
# encode_into_pdu run on the real DecodeState / EncodeState; the PDU, the value, MIN-LENGTH, MAX-LENGTH and the cursor are
# symbolic and of any size.  What makes this possible:
#   * byte fields of symbolic size stay within one path (leaf.decode/encode_bytefield_of_any_length, bitstruct model),
#   * bytes.find is used through its specification (first match in [start, end), else -1; assumed, A-py),
#   * the two search loops are cut at inductive invariants (while_inductive) with a variant for termination,
#   * EncodeState.emplace_bytes is cut at its loop invariant (leaf.inv_emplace_bytes).
# The end-to-end harnesses keep covering the same code with short values (B); these contracts are the unbounded part.
from odxtools.decodestate import DecodeState
from odxtools.encodestate import EncodeState
from odxtools.exceptions import DecodeError, EncodeError, OdxError
from odxtools.minmaxlengthtype import MinMaxLengthType, Termination
from odxtools.odxtypes import DataType
from pyvc.api import H
from pyvc.loops import while_inductive
from pyvc.registry import harness
from spec import wire as W
from contracts import leaf  # noqa: F401  (registers the loop invariant of EncodeState.emplace_bytes)

TERMINATORS = {("ZERO", 1): b"\x00", ("HEX_FF", 1): b"\xff", ("ZERO", 2): b"\x00\x00", ("HEX_FF", 2): b"\xff\xff"}


def _hit(data, p, seq):
    """the termination sequence stands at position p of data (non-forking)"""
    return H.And([H.byte_at(data, p + k) == seq[k] for k in range(len(seq))])


# ---- decode: the search for the first correctly aligned termination sequence
def _decode_search_variant(max_terminator_pos, terminator_pos):
    return max_terminator_pos - terminator_pos + 1


@while_inductive(MinMaxLengthType.decode_from_pdu, 0, modifies=["terminator_pos"], variant=_decode_search_variant)
def inv_decode_search(self, decode_state, terminator_pos, orig_cursor_pos, termination_seq, max_terminator_pos):
    """everything before terminator_pos has been searched: no correctly aligned termination sequence that ends within
    the admissible range starts in [cursor + MIN-LENGTH, terminator_pos)"""
    m = len(termination_seq)
    msg = decode_state.coded_message
    return H.And(orig_cursor_pos + self.min_length <= terminator_pos,
                 terminator_pos <= H.ite(max_terminator_pos > orig_cursor_pos + self.min_length, max_terminator_pos,
                                         orig_cursor_pos + self.min_length),
                 H.forall(orig_cursor_pos + self.min_length, terminator_pos, lambda p: H.Not(H.And(
                     H.mod(p - orig_cursor_pos, m) == 0, p + m <= max_terminator_pos, _hit(msg, p, termination_seq)))))


def _decode_family(tier, seed):
    return [{"termination": t, "width": w, "bounded_above": b}
            for t in ("ZERO", "HEX_FF", "END_OF_PDU") for w in (1, 2) for b in (True, False)]


@harness(props=["C01", "C03", "C05"], strength="P", family=_decode_family,
         functions=[MinMaxLengthType.decode_from_pdu, DecodeState.extract_atomic_value],
         covers=["terminated", "unterminated", "too-short"], assumes=["A-bitstruct", "A-codec"], crosscheck=False,
         limits={"find_by_specification": True, "inductive_loops": True, "symbolic_raw_fields": True})
def minmax_decode_contract(termination, width, bounded_above):
    """MIN-MAX-LENGTH-TYPE decoding, any PDU, any MIN/MAX-LENGTH, any cursor: DecodeError iff the PDU ends before
    MIN-LENGTH bytes; otherwise the value consists of the bytes up to the first correctly aligned termination sequence
    that lies within MAX-LENGTH and the PDU - or up to MAX-LENGTH / the end of the PDU if there is none; the cursor is
    behind the termination sequence that was consumed"""
    dt = DataType.A_BYTEFIELD if width == 1 else DataType.A_UNICODE2STRING
    mn = H.int("min_length", 0)
    mx = H.int("max_length", 0) if bounded_above else None
    if bounded_above:
        H.assume(mn <= mx)
    t = MinMaxLengthType(base_data_type=dt, base_type_encoding=None, is_highlow_byte_order_raw=None, min_length=mn,
                         max_length=mx, termination=Termination[termination])
    msg = H.bytes("msg")
    cur = H.int("cur", 0)
    ds = DecodeState(coded_message=msg, cursor_byte_position=cur, cursor_bit_position=0)
    E = len(msg)
    try:
        v = t.decode_from_pdu(ds)
    except DecodeError:
        H.cover("too-short")
        # (texts: also a byte sequence that is no text in the encoding; the abstract codec decides that)
        H.check("C05:decode-error-only-if-the-pdu-ends-before-min-length", H.Or(cur + mn > E, width == 2))
        return
    except Exception:
        H.check("C05:only-decode-errors-escape", False)
        return
    H.check("C05:only-decode-errors-escape", True)
    H.check("C05:a-pdu-that-ends-before-min-length-is-rejected", cur + mn <= E)
    limit = E if mx is None else H.ite(cur + mx < E, cur + mx, E)
    after = ds.cursor_byte_position
    if termination == "END_OF_PDU":
        H.cover("unterminated")
        H.check("C01,C03:value-extends-to-max-length-or-the-end-of-the-pdu", after == limit)
        if width == 1:
            H.check("C01,C03:value-is-the-bytes-of-the-message",
                    H.And(len(v) == limit - cur, H.forall(0, len(v), lambda j: H.byte_at(v, j) == H.byte_at(msg, cur + j))))
        return
    seq = TERMINATORS[(termination, width)]
    m = len(seq)
    def no_aligned_terminator_before(stop):
        return H.forall(cur + mn, stop, lambda p: H.Not(H.And(H.mod(p - cur, m) == 0, p + m <= limit, _hit(msg, p, seq))))

    if width == 2:
        # texts: the value is what the codec makes of the bytes (leaf contract decode_string); here: where it ends.
        # Either a correctly aligned termination sequence was consumed - the first one - or the value ends at the limit
        H.cover("terminated" if after != limit else "unterminated")
        H.check("C01,C03:value-ends-at-the-first-aligned-termination-sequence-or-at-the-limit",
                H.Or(H.And(after - m >= cur + mn, after <= limit, H.mod(after - m - cur, m) == 0,
                           _hit(msg, after - m, seq), no_aligned_terminator_before(after - m)),
                     H.And(after == limit, no_aligned_terminator_before(limit))))
        return
    stop = cur + len(v)
    terminated = H.And(stop + m <= limit, _hit(msg, stop, seq))
    H.cover("terminated" if after != stop else "unterminated")
    H.check("C01,C03:value-has-at-least-min-length-and-stays-within-max-length-and-the-pdu",
            H.And(cur + mn <= stop, stop <= limit))
    H.check("C01,C03:no-aligned-termination-sequence-inside-the-value", no_aligned_terminator_before(stop))
    H.check("C01,C03:value-ends-at-a-termination-sequence-or-at-the-limit",
            H.Or(H.And(terminated, after == stop + m), H.And(stop == limit, after == stop)))
    H.check("C01,C03:value-is-the-bytes-of-the-message",
            H.forall(0, len(v), lambda j: H.byte_at(v, j) == H.byte_at(msg, cur + j)))


# ---- encode: the check that the value does not contain its own (correctly aligned) termination sequence
def _encode_search_variant(pos, raw_value):
    return H.ite(pos >= 0, len(raw_value) - pos + 1, 0)


@while_inductive(MinMaxLengthType.encode_into_pdu, 0, modifies=["pos"], variant=_encode_search_variant)
def inv_encode_search(pos, raw_value, termination_sequence):
    """pos is -1 or the first occurrence of the termination sequence at or behind the positions examined so far; no
    correctly aligned occurrence starts before it (anywhere, if pos is -1)"""
    m = len(termination_sequence)
    n = len(raw_value)
    return H.And(pos >= -1, H.implies(pos >= 0, H.And(pos + m <= n, _hit(raw_value, pos, termination_sequence))),
                 H.forall(0, H.ite(pos >= 0, pos, n), lambda p: H.Not(H.And(
                     H.mod(p, m) == 0, p + m <= n, _hit(raw_value, p, termination_sequence)))))


@harness(props=["C01", "C02", "C04"], strength="P",
         family=lambda t, s: [{"termination": x, "bounded_above": b} for x in ("ZERO", "HEX_FF", "END_OF_PDU")
                              for b in (True, False)],
         functions=[MinMaxLengthType.encode_into_pdu, EncodeState.emplace_atomic_value, EncodeState.emplace_bytes],
         covers=["accepted", "rejected"], assumes=["A-bitstruct"], crosscheck=False,
         limits={"find_by_specification": True, "inductive_loops": True, "symbolic_raw_fields": True})
def minmax_encode_contract(termination, bounded_above):
    """MIN-MAX-LENGTH-TYPE encoding of a byte field of any length at any cursor: accepted iff the length is within
    MIN/MAX-LENGTH and the value does not contain its termination byte (END-OF-PDU: iff the object is the last one);
    the PDU then holds the value followed by the termination byte - unless the value has MAX-LENGTH or ends the PDU -
    and nothing else changes"""
    mn = H.int("min_length", 0)
    mx = H.int("max_length", 0) if bounded_above else None
    if bounded_above:
        H.assume(mn <= mx)
    t = MinMaxLengthType(base_data_type=DataType.A_BYTEFIELD, base_type_encoding=None, is_highlow_byte_order_raw=None,
                         min_length=mn, max_length=mx, termination=Termination[termination])
    es, cur, origin = leaf._encode_state(0)
    last = H.bool("is_end_of_pdu")
    es.is_end_of_pdu = last
    v = H.bytes("v")
    n = len(v)
    seq = TERMINATORS.get((termination, 1))
    contains_terminator = False if seq is None else H.exists(0, n, lambda p: H.byte_at(v, p) == seq[0])
    length_ok = H.And(n >= mn, True if mx is None else n <= mx)
    extra = 0 if seq is None else H.ite(H.Or(last, False if mx is None else n == mx), 0, 1)
    old_len = len(es.coded_message)
    old_msg = W.extend(H.snapshot(es.coded_message), cur + n + 1)
    old_mask = W.extend(H.snapshot(es.used_mask), cur + n + 1)
    try:
        t.encode_into_pdu(v, es)
    except OdxError:
        H.cover("rejected")
        H.check("C04:rejection-has-a-cause",
                H.Or(H.Not(length_ok), contains_terminator, H.And(termination == "END_OF_PDU", H.Not(last))))
        return
    except Exception:
        H.check("C04:rejections-are-odxtools-errors-never-foreign-exceptions", False)
        return
    H.cover("accepted")
    H.check("C04:rejections-are-odxtools-errors-never-foreign-exceptions", True)
    H.check("C01,C04:accepted-implies-length-within-min-and-max", length_ok)
    H.check("C01,C04:accepted-implies-the-value-does-not-contain-its-termination-byte", H.Not(contains_terminator))
    new, new_mask = es.coded_message, es.used_mask
    end = cur + n + extra
    H.check("C02:pdu-length-is-max-of-old-and-end-of-object", len(new) == H.ite(old_len > end, old_len, end))
    H.check("C02:pdu-holds-the-value-bytes-in-order",
            H.forall(cur, cur + n, lambda j: H.byte_at(new, j) == H.byte_at(v, j - cur)), independent=True)
    if seq is not None:
        H.check("C02:termination-byte-follows-unless-max-length-or-end-of-pdu",
                H.implies(extra == 1, H.byte_at(new, cur + n) == seq[0]), independent=True)
    H.check("C02:bytes-outside-the-object-unchanged",
            H.forall(0, len(new), lambda j: H.implies(H.Or(j < cur, j >= end),
                                                      H.byte_at(new, j) == H.byte_at(old_msg, j))), independent=True)
    H.check("C02:cursor-is-behind-the-object", H.And(es.cursor_byte_position == end, es.cursor_bit_position == 0))
