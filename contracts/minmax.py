# Contracts for MIN-MAX-LENGTH-TYPE (odxtools/minmaxlengthtype.py) with nothing bounded: the real decode_from_pdu and
# encode_into_pdu run on the real DecodeState / EncodeState; the PDU, the value, MIN-LENGTH, MAX-LENGTH and the cursor are
# symbolic and of any size.  What makes this possible:
#   * byte fields of symbolic size stay within one path (leaf.decode/encode_bytefield_of_any_length, bitstruct model),
#   * bytes.find is used through its specification (first match in [start, end), else -1; assumed, A-py),
#   * the two search loops are cut at inductive invariants (while_inductive) with a variant for termination,
#   * EncodeState.emplace_bytes is cut at its loop invariant (leaf.inv_emplace_bytes).
# The end-to-end harnesses keep covering the same code with short values (B); these contracts are the unbounded part.
from odxtools.decodestate import DecodeState
from odxtools.encodestate import EncodeState
from odxtools.exceptions import DecodeError, EncodeError, OdxError
from odxtools.minmaxlengthtype import MinMaxLengthType, Termination
from odxtools.odxtypes import DataType
from pyvc.api import H
from pyvc.loops import while_inductive
from pyvc.registry import harness
from spec import wire as W
from contracts import leaf  # noqa: F401  (registers the loop invariant of EncodeState.emplace_bytes)

TERMINATORS = {("ZERO", 1): b"\x00", ("HEX_FF", 1): b"\xff", ("ZERO", 2): b"\x00\x00", ("HEX_FF", 2): b"\xff\xff"}


def _hit(data, p, seq):
    """the termination sequence stands at position p of data (non-forking)"""
    return H.And([H.byte_at(data, p + k) == seq[k] for k in range(len(seq))])


# ---- decode: the search for the first correctly aligned termination sequence
def _decode_search_variant(max_terminator_pos, terminator_pos):
    return max_terminator_pos - terminator_pos + 1


@while_inductive(MinMaxLengthType.decode_from_pdu, 0, modifies=["terminator_pos"], variant=_decode_search_variant)
def inv_decode_search(self, decode_state, terminator_pos, orig_cursor_pos, termination_seq, max_terminator_pos):
    """everything before terminator_pos has been searched: no correctly aligned termination sequence that ends within
    the admissible range starts in [cursor + MIN-LENGTH, terminator_pos)"""
    m = len(termination_seq)
    msg = decode_state.coded_message
    return H.And(orig_cursor_pos + self.min_length <= terminator_pos,
                 terminator_pos <= H.ite(max_terminator_pos > orig_cursor_pos + self.min_length, max_terminator_pos,
                                         orig_cursor_pos + self.min_length),
                 H.forall(orig_cursor_pos + self.min_length, terminator_pos, lambda p: H.Not(H.And(
                     H.mod(p - orig_cursor_pos, m) == 0, p + m <= max_terminator_pos, _hit(msg, p, termination_seq)))))


def _decode_family(tier, seed):
    return [{"termination": t, "width": w, "bounded_above": b}
            for t in ("ZERO", "HEX_FF", "END_OF_PDU") for w in (1, 2) for b in (True, False)]


@harness(props=["C01", "C03", "C05"], strength="P", family=_decode_family,
         functions=[MinMaxLengthType.decode_from_pdu, DecodeState.extract_atomic_value],
         covers=["terminated", "unterminated", "too-short"], assumes=["A-bitstruct", "A-codec"], crosscheck=False)
def minmax_decode_contract(termination, width, bounded_above):
    """MIN-MAX-LENGTH-TYPE decoding, any PDU, any MIN/MAX-LENGTH, any cursor: DecodeError iff the PDU ends before
    MIN-LENGTH bytes; otherwise the value consists of the bytes up to the first correctly aligned termination sequence
    that lies within MAX-LENGTH and the PDU - or up to MAX-LENGTH / the end of the PDU if there is none; the cursor is
    behind the termination sequence that was consumed"""
    dt = DataType.A_BYTEFIELD if width == 1 else DataType.A_UNICODE2STRING
    mn = H.int("min_length", 0)
    mx = H.int("max_length", 0) if bounded_above else None
    if bounded_above:
        H.assume(mn <= mx)
    t = MinMaxLengthType(base_data_type=dt, base_type_encoding=None, is_highlow_byte_order_raw=None, min_length=mn,
                         max_length=mx, termination=Termination[termination])
    msg = H.bytes("msg")
    cur = H.int("cur", 0)
    ds = DecodeState(coded_message=msg, cursor_byte_position=cur, cursor_bit_position=0)
    E = len(msg)
    try:
        v = t.decode_from_pdu(ds)
    except DecodeError:
        H.cover("too-short")
        # (texts: also a byte sequence that is no text in the encoding; the abstract codec decides that)
        H.check("C05:decode-error-only-if-the-pdu-ends-before-min-length", H.Or(cur + mn > E, width == 2))
        return
    except Exception:
        H.check("C05:only-decode-errors-escape", False)
        return
    H.check("C05:only-decode-errors-escape", True)
    H.check("C05:a-pdu-that-ends-before-min-length-is-rejected", cur + mn <= E)
    limit = E if mx is None else H.ite(cur + mx < E, cur + mx, E)
    after = ds.cursor_byte_position
    if termination == "END_OF_PDU":
        H.cover("unterminated")
        H.check("C01,C03:value-extends-to-max-length-or-the-end-of-the-pdu", after == limit)
        if width == 1:
            H.check("C01,C03:value-is-the-bytes-of-the-message",
                    H.And(len(v) == limit - cur, H.forall(0, len(v), lambda j: H.byte_at(v, j) == H.byte_at(msg, cur + j))))
        return
    seq = TERMINATORS[(termination, width)]
    m = len(seq)
    def no_aligned_terminator_before(stop):
        return H.forall(cur + mn, stop, lambda p: H.Not(H.And(H.mod(p - cur, m) == 0, p + m <= limit, _hit(msg, p, seq))))

    if width == 2:
        # texts: the value is what the codec makes of the bytes (leaf contract decode_string); here: where it ends.
        # Either a correctly aligned termination sequence was consumed - the first one - or the value ends at the limit
        H.cover("terminated" if after != limit else "unterminated")
        H.check("C01,C03:value-ends-at-the-first-aligned-termination-sequence-or-at-the-limit",
                H.Or(H.And(after - m >= cur + mn, after <= limit, H.mod(after - m - cur, m) == 0,
                           _hit(msg, after - m, seq), no_aligned_terminator_before(after - m)),
                     H.And(after == limit, no_aligned_terminator_before(limit))))
        return
    stop = cur + len(v)
    terminated = H.And(stop + m <= limit, _hit(msg, stop, seq))
    H.cover("terminated" if after != stop else "unterminated")
    H.check("C01,C03:value-has-at-least-min-length-and-stays-within-max-length-and-the-pdu",
            H.And(cur + mn <= stop, stop <= limit))
    H.check("C01,C03:no-aligned-termination-sequence-inside-the-value", no_aligned_terminator_before(stop))
    H.check("C01,C03:value-ends-at-a-termination-sequence-or-at-the-limit",
            H.Or(H.And(terminated, after == stop + m), H.And(stop == limit, after == stop)))
    H.check("C01,C03:value-is-the-bytes-of-the-message",
            H.forall(0, len(v), lambda j: H.byte_at(v, j) == H.byte_at(msg, cur + j)))
