# Lemmas over spec.isotp.step only (not over the code): together with contracts/isotp.refines_spec
# (code step == spec step for every frame and state) they give the history-level statements of C12/C13.
#
#  L-first    : from ANY cell state (this is the recovery clause of C13) the first frame of segment(P) sets the cell to
#               (P[:fs-2], |P|, 0) and reports nothing.
#  L-step     : induction step over the consecutive-frame index with invariant
#               Inv(m): cell = (P[:m], |P|, last), fs-2 <= m < |P|, sender's next sequence number = (last+1) mod 16:
#               the next consecutive frame (payload P[m:m+c], c = min(fs-1, |P|-m), arbitrary padding if it is the last)
#               either re-establishes Inv(m+c) and reports nothing, or completes with exactly [P] and an idle cell.
#  L-transparent: flow-control frames, sequence errors, stray consecutive frames, unknown frame types, empty and
#               short frames leave the cell unchanged and report nothing (so arbitrary interleaving with such frames and -
#               by the frame clause of refines_spec - with frames of other ids does not disturb a transfer).
#  L-single   : a single frame (classic, or CAN-FD escape format for 8..62 bytes) with arbitrary padding reports exactly
#               its payload and leaves the cell unchanged.
#  L-nofab    : ghost accumulation invariant: a reported multi-frame telegram is the announced-length prefix of the
#               first-frame payload followed by the in-sequence consecutive payloads, and the cell is idle afterwards
#               (so no second report for the same first frame).
from pyvc.api import H
from pyvc.registry import harness
from spec import isotp as S


def _any_cell(tag):
    announced = H.int(f"{tag}_announced", 0, 4095)
    last = H.int(f"{tag}_last", 0, 15)
    if H.bool(f"{tag}_inprogress"):
        return (H.bytes(f"{tag}_buf", 0, 4200), announced, last)
    return (None, announced, last)


def _cell_is(cell, buf, announced, last):
    if cell[0] is None:
        return False
    return H.And(H.eq(cell[0], buf), cell[1] == announced, cell[2] == last)


@harness(props=["C12", "C13"], strength="P", covers=["first"])
def lemma_first_frame():
    """L-first: any cell state --first frame of P--> (P[:fs-2], |P|, 0), nothing reported (recovery after any fault)"""
    fs = H.int("fs", 8, 64)
    P = H.bytes("P", 7, 4095)
    n = len(P)
    H.assume(n > fs - 2)
    cell = _any_cell("c")
    frame = bytes([0x10 + H.div(n, 256), H.mod(n, 256)]) + P[:fs - 2]
    ncell, outs, ev = S.step(cell, frame)
    H.cover(ev)
    H.check("first-frame-recognised", ev == "first")
    H.check("first-frame-reports-nothing", len(outs) == 0)
    H.check("first-frame-sets-cell", _cell_is(ncell, P[:fs - 2], n, 0))


@harness(props=["C12"], strength="P", covers=["consecutive", "complete"])
def lemma_consecutive_step():
    """L-step: Inv(m) --next consecutive frame--> Inv(m+c) and no report, or exactly [P] and idle"""
    fs = H.int("fs", 8, 64)
    P = H.bytes("P", 7, 4095)
    n = len(P)
    m = H.int("m", 6, 4095)
    H.assume(H.And(fs - 2 <= m, m < n))
    last = H.int("last", 0, 15)
    c = H.ite(n - m < fs - 1, n - m, fs - 1)
    pad = H.bytes("pad", 0, 63)
    H.assume(len(pad) <= fs - 1 - c)
    H.assume(H.implies(m + c < n, len(pad) == 0))
    seq = H.mod(last + 1, 16)
    frame = bytes([0x20 + seq]) + P[m:m + c] + pad
    cell = (P[:m], n, last)
    ncell, outs, ev = S.step(cell, frame)
    H.cover(ev)
    if m + c < n:
        H.check("step:no-report-before-last-frame", len(outs) == 0)
        H.check("step:invariant-re-established", _cell_is(ncell, P[:m + c], n, seq))
    else:
        H.check("step:exactly-one-report", len(outs) == 1)
        if len(outs) == 1:
            H.check("step:reported-payload-is-P", H.eq(outs[0], P))
        H.check("step:cell-idle-after-completion", ncell[0] is None)


@harness(props=["C12", "C13"], strength="P",
         covers=["flow-control", "sequence-error", "ignored-stray-consecutive", "frame-type-error", "ignored-empty",
                 "ignored-short-first"])
def lemma_transparent_frames():
    """L-transparent: non-data frames and faulty frames leave the cell unchanged and report nothing"""
    cell = _any_cell("c")
    data = H.bytes("data", 0, 64)
    ncell, outs, ev = S.step(cell, data)
    H.cover(ev)
    if ev in ("flow-control", "sequence-error", "ignored-stray-consecutive", "frame-type-error", "ignored-empty",
              "ignored-short-first"):
        H.check("transparent:no-report", len(outs) == 0)
        H.check("transparent:cell-unchanged", ncell is cell)
    if len(data) >= 1 and data[0] >> 4 == 3:
        H.check("transparent:flow-control-always-transparent", ev == "flow-control")
    if len(data) == 0 or (data[0] >> 4 == 1 and len(data) < 2) or data[0] >> 4 > 3:
        H.check("C13:malformed-frames-are-ignored", H.And(len(outs) == 0, ncell is cell))


def _single_family(tier, seed):
    return [{"fd": False}, {"fd": True}]


@harness(props=["C12"], strength="P", family=_single_family, covers=["single", "single-fd"])
def lemma_single_frame(fd):
    """L-single: a single frame with arbitrary padding reports exactly its payload, cell unchanged"""
    cell = _any_cell("c")
    if fd:
        P = H.bytes("P", 8, 62)
        pad = H.bytes("pad", 0, 54)
        frame = bytes([0x00, len(P)]) + P + pad
        H.assume(len(frame) <= 64)
    else:
        P = H.bytes("P", 1, 7)
        pad = H.bytes("pad", 0, 56)
        frame = bytes([len(P)]) + P + pad
        H.assume(len(frame) <= 64)
    ncell, outs, ev = S.step(cell, frame)
    H.cover(ev)
    H.check("single:exactly-one-report", len(outs) == 1)
    if len(outs) == 1:
        H.check("single:reported-payload-is-P", H.eq(outs[0], P))
    H.check("single:cell-unchanged", ncell is cell)


@harness(props=["C13"], strength="P", covers=["first", "consecutive", "complete", "single"])
def lemma_no_fabrication():
    """L-nofab: ghost accumulator invariant; every report is a single-frame payload or the announced prefix of FF+CFs"""
    cell = _any_cell("c")
    # ghost: payload accumulated since the last first frame and its announced length
    g_acc = H.bytes("g_acc", 0, 4200)
    g_announced = H.int("g_announced", 0, 4095)
    if cell[0] is not None:
        H.assume(H.And(H.eq(cell[0], g_acc), cell[1] == g_announced))
    data = H.bytes("data", 0, 64)
    ncell, outs, ev = S.step(cell, data)
    H.cover(ev)
    H.check("nofab:at-most-one-report-per-frame", len(outs) <= 1)
    # ghost update, defined from the frame alone
    if ev == "first":
        g_acc2, g_announced2 = data[2:], (data[0] & 0xF) * 256 + data[1]
    elif ev in ("consecutive", "complete"):
        g_acc2, g_announced2 = g_acc + data[1:], g_announced
    else:
        g_acc2, g_announced2 = g_acc, g_announced
    if ncell[0] is not None:
        H.check("nofab:ghost-invariant-preserved", H.And(H.eq(ncell[0], g_acc2), ncell[1] == g_announced2))
    if len(outs) == 1:
        if ev in ("single", "single-fd"):
            if ev == "single":
                H.check("nofab:single-report-is-this-frames-payload", H.eq(outs[0], data[1:1 + (data[0] & 0xF)]))
            else:
                H.check("nofab:single-report-is-this-frames-payload",
                        H.And(len(data) > 8, H.eq(outs[0], data[2:2 + data[1]])))
            H.check("nofab:single-frame-leaves-transfer-alone", ncell is cell)
        else:
            H.check("nofab:report-only-on-completion", ev == "complete")
            H.check("nofab:report-is-announced-prefix-of-accumulated", H.eq(outs[0], g_acc2[:g_announced2]))
            H.check("nofab:report-has-announced-length", len(outs[0]) == g_announced2)
            H.check("nofab:idle-after-report-so-no-second-report", ncell[0] is None)
    if cell[0] is None and ev not in ("first",):
        H.check("nofab:idle-cell-reports-only-single-frames", H.Or(len(outs) == 0, ev == "single", ev == "single-fd"))
