# Contracts for message attribution (property C06): DiagLayer._prefix_tree / _extend_prefix_tree /
# _find_services_for_uds / _decode / decode / decode_response and DiagService.decode_message.
#
# The real functions run on real DiagLayer / DiagService objects (created without their constructors) whose coding
# objects are ghosts: a ghost request/response has a constant prefix (picked from an alphabet that contains empty,
# shared and nested prefixes) and an abstract decoding outcome for the message (value | decode error | mismatch),
# constrained only by "no successful decoding unless the prefix matches".  The message is symbolic.
import odxtools.exceptions as X
from odxtools.diaglayers.diaglayer import DiagLayer
from odxtools.diagservice import DiagService
from odxtools.exceptions import DecodeError, DecodeMismatch
from pyvc.api import H
from pyvc.registry import harness

PREFIXES = [b"", b"\x10", b"\x10\x01", b"\x50"]


class GhostParameter:

    def __init__(self, name):
        self.short_name = name
        self.is_settable = True


class GhostCoding:

    def __init__(self, name, prefix, echo_request_prefix=False, outcomes=("value", "error", "mismatch"),
                 short_name=None):
        self.outcomes = list(outcomes)
        self.uid = name
        # (requests, positive and negative responses live in separate name spaces: equal short names are legal)
        self.short_name = short_name or name
        self.prefix = prefix
        self.echo = echo_request_prefix
        self.outcome = None
        self.parameters = [GhostParameter("decoded_by")]

    def coded_const_prefix(self, request_prefix=b""):
        if self.echo:
            # like a global negative response with a MATCHING-REQUEST parameter: 7F + first request byte
            return self.prefix + request_prefix[:1]
        return self.prefix

    def applicable(self, message):
        p = self.prefix
        # (an object that echoes a request byte needs that byte to be present in the message)
        return H.And(len(message) >= len(p) + (1 if self.echo else 0), H.eq(message[:len(p)], p))

    def outcome_for(self, message):
        if self.outcome is None:
            self.outcome = H.pick(f"outcome_{self.uid}", self.outcomes)
            if self.outcome == "value":
                H.assume(self.applicable(message))  # nothing decodes a message that lacks its constant prefix
        return self.outcome

    def decode(self, message):
        self.outcome_for(message)
        if self.outcome == "value":
            return {"decoded_by": self.uid}
        if self.outcome == "mismatch":
            raise DecodeMismatch("ghost mismatch")
        raise DecodeError("ghost decode error")


class GhostRaw:

    def __init__(self):
        self.short_name = "layer"
        self.services = []
        self.global_negative_responses = []


def mk_service(i, with_neg, small=False, shared_names=False):
    s = DiagService.__new__(DiagService)
    s.short_name = f"svc{i}"
    shared = f"object{i}" if shared_names else None
    s._request = GhostCoding(f"rq{i}", H.pick(f"rq{i}_prefix", PREFIXES[:3] if small else PREFIXES),
                             outcomes=("value", "error"), short_name=shared)
    s._positive_responses = [GhostCoding(f"pr{i}", H.pick(f"pr{i}_prefix", [b"", b"\x50", b"\x10"] if small
                                                          else PREFIXES), short_name=shared)]
    s._negative_responses = [GhostCoding(f"nr{i}", H.pick(f"nr{i}_prefix", [b"\x7f", b"\x7f\x10"]),
                                         short_name=shared)] if with_neg else []
    return s


def _fam(tier, seed):
    out = [{"nsvc": 1, "with_neg": True, "gnr": True, "shared_names": False},
           {"nsvc": 2, "with_neg": False, "gnr": False, "shared_names": False},
           {"nsvc": 1, "with_neg": True, "gnr": False, "shared_names": True}]
    if tier == "thorough":
        out += [{"nsvc": 2, "with_neg": False, "gnr": True, "shared_names": False},
                {"nsvc": 2, "with_neg": True, "gnr": True, "shared_names": True}]
    return out


def _prefix_of(p, message):
    return H.And(len(message) >= len(p), H.eq(message[:len(p)], p))


@harness(props=["C06"], strength="B", family=_fam,
         bound="1..2 (quick) / up to 3 (thorough) services with request, positive (and negative) response and an optional "
         "global negative response; constant prefixes from a 4-element alphabet with empty, shared and nested "
         "prefixes; message symbolic, 0..2 bytes; decoding outcome of every coding object abstract",
         functions=[DiagLayer._prefix_tree, DiagLayer._extend_prefix_tree, DiagLayer._find_services_for_uds,
                    DiagLayer._decode, DiagLayer.decode, DiagService.decode_message],
         covers=["attributed", "nothing"], limits={"max_paths": 200000, "task_timeout": 1500})
def message_attribution(nsvc, with_neg, gnr, shared_names):
    """decode(M) reports exactly the services that have a coding object (or an applicable global negative response)
    whose constant prefix and parameters match M, and raises DecodeError only if there is none"""
    layer = DiagLayer.__new__(DiagLayer)
    raw = GhostRaw()
    layer.diag_layer_raw = raw
    raw.services = [mk_service(i, with_neg, nsvc > 1, shared_names) for i in range(nsvc)]
    if gnr:
        raw.global_negative_responses = [GhostCoding("gnr", b"\x7f", echo_request_prefix=True)]
    message = H.bytes("message", 0, 2)
    # --- specification of the expected attribution
    try:
        msgs = layer.decode(message)
        failed = False
    except DecodeError:
        msgs, failed = [], True
    # outcomes are fixed now (picked lazily at the first decode); objects never asked have no successful outcome
    expected = []
    for svc in raw.services:
        rqp = svc._request.prefix
        objs = [svc._request] + svc._positive_responses + svc._negative_responses
        hits = []
        for c in objs:
            applies = H.ite(_prefix_of(c.coded_const_prefix(rqp), message), True, False)
            if applies and c.outcome_for(message) == "value":
                hits.append(c)
        gnr_hits = []
        for g in raw.global_negative_responses:
            if H.ite(_prefix_of(g.coded_const_prefix(rqp), message), True, False) and \
                    g.outcome_for(message) == "value":
                gnr_hits.append(g)
        H.assume(len(hits) <= 1)  # (a message that two coding objects of one service decode is ambiguous: excluded)
        if hits:
            expected.append((svc, hits[0]))
        elif gnr_hits:
            expected.append((svc, gnr_hits[0]))
    got = [(m.service, m.coding_object) for m in msgs]
    H.note("got", [(s.short_name, c.short_name) for (s, c) in got], "expected",
           [(s.short_name, c.short_name) for (s, c) in expected], "failed", failed)
    if expected:
        H.cover("attributed")
    else:
        H.cover("nothing")
    H.check("C06:decode-error-only-if-no-service-matches", failed == (len(expected) == 0))
    H.check("C06:exactly-the-matching-services-are-reported",
            sorted([s.short_name for (s, c) in got]) == sorted([s.short_name for (s, c) in expected]))
    H.check("C06:each-report-names-the-matching-coding-object",
            all([any([(s is es) and (c is ec) for (es, ec) in expected]) for (s, c) in got]))


# ---------------------------------------------------------------------------------------------------------------
# service groups: ServiceBinner files every service under the first byte of its request
from contracts import build as B  # noqa: E402
from odxtools.servicebinner import ServiceBinner  # noqa: E402

# leading coded constants of the request: (bit length, byte position, bit position).  (A single 32 bit constant is
# left out: integers wider than 16 bits are bridged to bit vectors by uninterpreted functions in the engine, which
# cannot relate the first byte of the packed constant to the shifted integer - the obligation came back refuted with
# a model that does not fail natively, i.e. an artefact of the abstraction, not a finding.)
SID_SHAPES = {
    "u8": [(8, 0, None)],
    "u16": [(16, 0, None)],
    "u8+u8": [(8, 0, None), (8, 1, None)],
    "nibbles": [(4, 0, 4), (4, 0, 0)],
    "u8+u16": [(8, 0, None), (16, 1, None)],
}


@harness(props=["C06"], strength="B", family=lambda t, s: [{"shape": k} for k in SID_SHAPES],
         bound="five layouts of the leading constants (8 / 16 bit, two nibbles, 8+8, 8+16 bit), constants symbolic",
         functions=[ServiceBinner.__init__, ServiceBinner._ServiceBinner__extract_sid, ServiceBinner.__getitem__],
         covers=["filed"], assumes=["A-bitstruct"])
def service_groups_by_first_request_byte(shape):
    """the service-group view files a service under the first byte of its (encoded) request"""
    consts = []
    for i, (bits, byte_pos, bit_pos) in enumerate(SID_SHAPES[shape]):
        v = H.int(f"const{i}", 0, (1 << bits) - 1)
        consts.append(B.coded_const(f"c{i}", v, byte_pos, bits, bit_position=bit_pos))
    svc = DiagService.__new__(DiagService)
    svc.short_name = "svc"
    svc._request = B.request(consts + [B.value_param("arg", B.dop("u8", 8))])
    binner = ServiceBinner([svc])
    first = bytes(svc._request.encode(arg=0))[0]
    sids = list(binner)
    H.cover("filed")
    H.check("C06:service-is-filed-under-exactly-one-group", len(sids) == 1)
    H.check("C06:service-is-filed-under-the-first-byte-of-its-request", H.And(len(sids) == 1, sids[0] == first))


# ---------------------------------------------------------------------------------------------------------------
# real descriptions below a real layer: two services that share the constant prefix and differ in their total length,
# a reserved tail, and a negative response whose NRC-CONST is followed by a parameter without explicit position
from contracts import build as B  # noqa: E402

NRCS = [0x21, 0x78]


def _real_services():
    a = DiagService.__new__(DiagService)
    a.short_name = "short"
    a._request = B.request([B.coded_const("sid", 0x22, 0), B.value_param("x", B.dop("u8", 8), 1),
                            B.reserved("tail", 8)], "rq_short")
    a._positive_responses = [B.response([B.coded_const("sid", 0x62, 0), B.value_param("r", B.dop("u8r", 8), 1)],
                                        "pr_short")]
    a._negative_responses = [
        B.response([B.coded_const("sid", 0x7F, 0), B.coded_const("rq_sid", 0x22, 1), B.nrc_const("nrc", NRCS, 2),
                    B.value_param("retry", B.dop("u8n", 8)), B.value_param("code", B.dop("u8c", 8), 2)],
                   "nr_short", "NEGATIVE")]
    b = DiagService.__new__(DiagService)
    b.short_name = "long"
    b._request = B.request([B.coded_const("sid", 0x22, 0), B.value_param("ident", B.dop("u16", 16), 1),
                            B.value_param("y", B.dop("u8y", 8), 3)], "rq_long")
    b._positive_responses = []
    b._negative_responses = []
    return a, b


@harness(props=["C06", "C05"], strength="B", family=lambda t, s: [{"n": n} for n in range(0, 6)],
         bound="two real services whose requests share the constant prefix 0x22 (3 bytes with a reserved tail / 4 "
         "bytes), a positive response and a negative response with an NRC-CONST followed by an unpositioned parameter; "
         "message of n = 0..5 arbitrary bytes; values of the own encodings symbolic",
         functions=[DiagLayer.decode, DiagLayer.decode_response, DiagLayer._decode, DiagLayer._find_services_for_uds,
                    DiagLayer._prefix_tree, DiagService.decode_message],
         covers=["attributed", "unattributed"], assumes=["A-bitstruct", "A-lib"], crosscheck=False)
def real_descriptions_below_a_real_layer(n):
    """with real requests and responses: a message is attributed to exactly the services whose request it matches in
    constants and length, with the values its bytes hold; own encodings of requests and responses are attributed to
    their service with the original values"""
    a, b = _real_services()
    layer = DiagLayer.__new__(DiagLayer)
    raw = GhostRaw()
    raw.services = [a, b]
    layer.diag_layer_raw = raw
    message = H.bytes("message", n, n)
    try:
        msgs = layer.decode(message)
    except DecodeError:
        msgs = []
    except Exception:
        H.check("C05,C06:only-decode-errors-escape-the-layer", False)
        return
    H.check("C05,C06:only-decode-errors-escape-the-layer", True)
    # (decode() considers requests and responses alike; the coding object tells which description matched)
    want = {
        "rq_short": n >= 3 and message[0] == 0x22,
        "rq_long": n >= 4 and message[0] == 0x22,
        "pr_short": n >= 2 and message[0] == 0x62,
        "nr_short": n >= 4 and message[0] == 0x7F and message[1] == 0x22 and H.Or(*[message[2] == c for c in NRCS]),
    }
    got = {k: [m for m in msgs if m.coding_object.short_name == k] for k in want}
    H.cover("attributed" if msgs else "unattributed")
    H.check("C06:interpretations-are-reported-for-exactly-the-matching-services",
            H.And(*[H.eq(len(got[k]) == 1, want[k]) for k in want], len(msgs) == sum([len(v) for v in got.values()]),
                  all([m.service is (b if m.coding_object.short_name == "rq_long" else a) for m in msgs])))
    if got["rq_short"]:
        H.check("C06:reported-values-are-the-bytes-of-the-message", got["rq_short"][0].param_dict["x"] == message[1])
    if got["rq_long"]:
        H.check("C06:reported-values-are-the-bytes-of-the-message",
                H.And(got["rq_long"][0].param_dict["ident"] == message[1] * 256 + message[2],
                      got["rq_long"][0].param_dict["y"] == message[3]))
    if got["nr_short"]:
        H.check("C06:reported-values-are-the-bytes-of-the-message",
                H.And(got["nr_short"][0].param_dict["code"] == message[2],
                      got["nr_short"][0].param_dict["retry"] == message[3]))
    if n != 0:
        return
    # own encodings (once per family)
    x, r, retry = H.int("x", 0, 255), H.int("r", 0, 255), H.int("retry", 0, 255)
    code = H.pick("code", NRCS)
    rq = a._request.encode(x=x)
    back = [m for m in layer.decode(bytes(rq)) if m.service is a]
    H.check("C06:own-request-is-attributed-to-its-service-with-the-original-values",
            H.And(len(back) == 1, all([m.param_dict["x"] == x for m in back])))
    pos = a._positive_responses[0].encode(coded_request=bytes(rq), r=r)
    back = layer.decode_response(bytes(pos), bytes(rq))
    H.check("C06:own-response-is-attributed-through-the-request-with-the-original-values",
            H.And(len(back) == 1, all([m.service is a and m.param_dict["r"] == r for m in back])))
    neg = a._negative_responses[0].encode(coded_request=bytes(rq), retry=retry, code=code)
    back = layer.decode_response(bytes(neg), bytes(rq))
    H.check("C06:own-response-is-attributed-through-the-request-with-the-original-values",
            H.And(len(back) == 1, all([m.service is a and m.param_dict["retry"] == retry and
                                       m.param_dict["code"] == code for m in back])))


# ---------------------------------------------------------------------------------------------------------------
# the services a layer attributes messages to are the services it has after inheritance: a base variant with two
# functional-group parents that both define a service of the same name; the parent references may exclude it
from contracts.hierarchy import GhostLayer, GhostParentRef, _local, _not_inherited  # noqa: E402
from odxtools.diaglayers.hierarchyelement import HierarchyElement  # noqa: E402
from odxtools.nameditemlist import NamedItemList  # noqa: E402


@harness(props=["C06", "C09"], strength="B",
         family=lambda t, s: [{"excluded_from_a": x, "excluded_from_b": y} for x in (False, True) for y in (False, True)
                              if x or y],
         bound="a base variant with two functional-group parents which both define a service named read_ident (requests "
         "of 3 and of 4 bytes); each parent reference may exclude it; message = own request encodings, values symbolic",
         functions=[HierarchyElement._compute_available_objects, DiagLayer.decode, DiagLayer._find_services_for_uds,
                    DiagLayer._prefix_tree, DiagService.decode_message],
         covers=["done"], assumes=["A-bitstruct", "A-lib"], crosscheck=False)
def inheriting_layer_attributes_messages_to_the_services_it_inherits(excluded_from_a, excluded_from_b):
    """a request is attributed by the inheriting layer iff the layer inherits the service: a NOT-INHERITED entry of one
    parent reference does not hide the same-named service of the other parent"""
    a, b = _real_services()
    a.short_name = b.short_name = "read_ident"
    fg_a, fg_b, bv = GhostLayer("fg_a", "FG"), GhostLayer("fg_b", "FG"), GhostLayer("bv", "BV")
    fg_a.local.append(a)
    fg_b.local.append(b)
    bv.parent_refs.append(GhostParentRef(fg_a, ["read_ident"] if excluded_from_a else []))
    bv.parent_refs.append(GhostParentRef(fg_b, ["read_ident"] if excluded_from_b else []))
    bv._diag_services = NamedItemList(list(bv._compute_available_objects(_local, _not_inherited)))
    bv._global_negative_responses = NamedItemList([])
    x, ident, y = H.int("x", 0, 255), H.int("ident", 0, 65535), H.int("y", 0, 255)
    H.cover("done")
    for (svc, excluded, rq) in ((a, excluded_from_a, a._request.encode(x=x)),
                                (b, excluded_from_b, b._request.encode(ident=ident, y=y))):
        try:
            msgs = bv.decode(bytes(rq))
        except DecodeError:
            msgs = []
        own = [m for m in msgs if m.service is svc and m.coding_object is svc._request]
        H.check("C06,C09:a-request-is-attributed-to-its-service-iff-the-layer-inherits-the-service",
                len(own) == (0 if excluded else 1))
        H.check("C06:messages-are-attributed-to-services-of-the-layer-only",
                all([m.service is (b if excluded_from_a else a) for m in msgs]))
