# Contracts for message attribution (property C06): DiagLayer._prefix_tree / _extend_prefix_tree /
# _find_services_for_uds / _decode / decode / decode_response and DiagService.decode_message.
#
# The real functions run on real DiagLayer / DiagService objects (created without their constructors) whose coding
# objects are ghosts: a ghost request/response has a constant prefix (picked from an alphabet that contains empty,
# shared and nested prefixes) and an abstract decoding outcome for the message (value | decode error | mismatch),
# constrained only by "no successful decoding unless the prefix matches".  The message is symbolic.
import odxtools.exceptions as X
from odxtools.diaglayers.diaglayer import DiagLayer
from odxtools.diagservice import DiagService
from odxtools.exceptions import DecodeError, DecodeMismatch
from pyvc.api import H
from pyvc.registry import harness

PREFIXES = [b"", b"\x10", b"\x10\x01", b"\x50"]


class GhostParameter:

    def __init__(self, name):
        self.short_name = name
        self.is_settable = True


class GhostCoding:

    def __init__(self, name, prefix, echo_request_prefix=False, outcomes=("value", "error", "mismatch"),
                 short_name=None):
        self.outcomes = list(outcomes)
        self.uid = name
        # (requests, positive and negative responses live in separate name spaces: equal short names are legal)
        self.short_name = short_name or name
        self.prefix = prefix
        self.echo = echo_request_prefix
        self.outcome = None
        self.parameters = [GhostParameter("decoded_by")]

    def coded_const_prefix(self, request_prefix=b""):
        if self.echo:
            # like a global negative response with a MATCHING-REQUEST parameter: 7F + first request byte
            return self.prefix + request_prefix[:1]
        return self.prefix

    def applicable(self, message):
        p = self.prefix
        # (an object that echoes a request byte needs that byte to be present in the message)
        return H.And(len(message) >= len(p) + (1 if self.echo else 0), H.eq(message[:len(p)], p))

    def outcome_for(self, message):
        if self.outcome is None:
            self.outcome = H.pick(f"outcome_{self.uid}", self.outcomes)
            if self.outcome == "value":
                H.assume(self.applicable(message))  # nothing decodes a message that lacks its constant prefix
        return self.outcome

    def decode(self, message):
        self.outcome_for(message)
        if self.outcome == "value":
            return {"decoded_by": self.uid}
        if self.outcome == "mismatch":
            raise DecodeMismatch("ghost mismatch")
        raise DecodeError("ghost decode error")


class GhostRaw:

    def __init__(self):
        self.short_name = "layer"
        self.services = []
        self.global_negative_responses = []


def mk_service(i, with_neg, small=False, shared_names=False):
    s = DiagService.__new__(DiagService)
    s.short_name = f"svc{i}"
    shared = f"object{i}" if shared_names else None
    s._request = GhostCoding(f"rq{i}", H.pick(f"rq{i}_prefix", PREFIXES[:3] if small else PREFIXES),
                             outcomes=("value", "error"), short_name=shared)
    s._positive_responses = [GhostCoding(f"pr{i}", H.pick(f"pr{i}_prefix", [b"", b"\x50", b"\x10"] if small
                                                          else PREFIXES), short_name=shared)]
    s._negative_responses = [GhostCoding(f"nr{i}", H.pick(f"nr{i}_prefix", [b"\x7f", b"\x7f\x10"]),
                                         short_name=shared)] if with_neg else []
    return s


def _fam(tier, seed):
    out = [{"nsvc": 1, "with_neg": True, "gnr": True, "shared_names": False},
           {"nsvc": 2, "with_neg": False, "gnr": False, "shared_names": False},
           {"nsvc": 1, "with_neg": True, "gnr": False, "shared_names": True}]
    if tier == "thorough":
        out += [{"nsvc": 2, "with_neg": False, "gnr": True, "shared_names": False},
                {"nsvc": 2, "with_neg": True, "gnr": True, "shared_names": True}]
    return out


def _prefix_of(p, message):
    return H.And(len(message) >= len(p), H.eq(message[:len(p)], p))


@harness(props=["C06"], strength="B", family=_fam,
         bound="1..2 (quick) / up to 3 (thorough) services with request, positive (and negative) response and an optional "
         "global negative response; constant prefixes from a 4-element alphabet with empty, shared and nested "
         "prefixes; message symbolic, 0..2 bytes; decoding outcome of every coding object abstract",
         functions=[DiagLayer._prefix_tree, DiagLayer._extend_prefix_tree, DiagLayer._find_services_for_uds,
                    DiagLayer._decode, DiagLayer.decode, DiagService.decode_message],
         covers=["attributed", "nothing"], limits={"max_paths": 200000, "task_timeout": 1500})
def message_attribution(nsvc, with_neg, gnr, shared_names):
    """decode(M) reports exactly the services that have a coding object (or an applicable global negative response)
    whose constant prefix and parameters match M, and raises DecodeError only if there is none"""
    layer = DiagLayer.__new__(DiagLayer)
    raw = GhostRaw()
    layer.diag_layer_raw = raw
    raw.services = [mk_service(i, with_neg, nsvc > 1, shared_names) for i in range(nsvc)]
    if gnr:
        raw.global_negative_responses = [GhostCoding("gnr", b"\x7f", echo_request_prefix=True)]
    message = H.bytes("message", 0, 2)
    # --- specification of the expected attribution
    try:
        msgs = layer.decode(message)
        failed = False
    except DecodeError:
        msgs, failed = [], True
    # outcomes are fixed now (picked lazily at the first decode); objects never asked have no successful outcome
    expected = []
    for svc in raw.services:
        rqp = svc._request.prefix
        objs = [svc._request] + svc._positive_responses + svc._negative_responses
        hits = []
        for c in objs:
            applies = H.ite(_prefix_of(c.coded_const_prefix(rqp), message), True, False)
            if applies and c.outcome_for(message) == "value":
                hits.append(c)
        gnr_hits = []
        for g in raw.global_negative_responses:
            if H.ite(_prefix_of(g.coded_const_prefix(rqp), message), True, False) and \
                    g.outcome_for(message) == "value":
                gnr_hits.append(g)
        H.assume(len(hits) <= 1)  # (a message that two coding objects of one service decode is ambiguous: excluded)
        if hits:
            expected.append((svc, hits[0]))
        elif gnr_hits:
            expected.append((svc, gnr_hits[0]))
    got = [(m.service, m.coding_object) for m in msgs]
    H.note("got", [(s.short_name, c.short_name) for (s, c) in got], "expected",
           [(s.short_name, c.short_name) for (s, c) in expected], "failed", failed)
    if expected:
        H.cover("attributed")
    else:
        H.cover("nothing")
    H.check("C06:decode-error-only-if-no-service-matches", failed == (len(expected) == 0))
    H.check("C06:exactly-the-matching-services-are-reported",
            sorted([s.short_name for (s, c) in got]) == sorted([s.short_name for (s, c) in expected]))
    H.check("C06:each-report-names-the-matching-coding-object",
            all([any([(s is es) and (c is ec) for (es, ec) in expected]) for (s, c) in got]))


# ---------------------------------------------------------------------------------------------------------------
# service groups: ServiceBinner files every service under the first byte of its request
from contracts import build as B  # noqa: E402
from odxtools.servicebinner import ServiceBinner  # noqa: E402

# leading coded constants of the request: (bit length, byte position, bit position).  (A single 32 bit constant is
# left out: integers wider than 16 bits are bridged to bit vectors by uninterpreted functions in the engine, which
# cannot relate the first byte of the packed constant to the shifted integer - the obligation came back refuted with
# a model that does not fail natively, i.e. an artefact of the abstraction, not a finding.)
SID_SHAPES = {
    "u8": [(8, 0, None)],
    "u16": [(16, 0, None)],
    "u8+u8": [(8, 0, None), (8, 1, None)],
    "nibbles": [(4, 0, 4), (4, 0, 0)],
    "u8+u16": [(8, 0, None), (16, 1, None)],
}


@harness(props=["C06"], strength="B", family=lambda t, s: [{"shape": k} for k in SID_SHAPES],
         bound="five layouts of the leading constants (8 / 16 bit, two nibbles, 8+8, 8+16 bit), constants symbolic",
         functions=[ServiceBinner.__init__, ServiceBinner._ServiceBinner__extract_sid, ServiceBinner.__getitem__],
         covers=["filed"], assumes=["A-bitstruct"])
def service_groups_by_first_request_byte(shape):
    """the service-group view files a service under the first byte of its (encoded) request"""
    consts = []
    for i, (bits, byte_pos, bit_pos) in enumerate(SID_SHAPES[shape]):
        v = H.int(f"const{i}", 0, (1 << bits) - 1)
        consts.append(B.coded_const(f"c{i}", v, byte_pos, bits, bit_position=bit_pos))
    svc = DiagService.__new__(DiagService)
    svc.short_name = "svc"
    svc._request = B.request(consts + [B.value_param("arg", B.dop("u8", 8))])
    binner = ServiceBinner([svc])
    first = bytes(svc._request.encode(arg=0))[0]
    sids = list(binner)
    H.cover("filed")
    H.check("C06:service-is-filed-under-exactly-one-group", len(sids) == 1)
    H.check("C06:service-is-filed-under-the-first-byte-of-its-request", H.And(len(sids) == 1, sids[0] == first))
