# Contracts for odxtools/odxlink.py and odxtools/utils.retarget_snrefs (property C10)
from xml.etree import ElementTree

import odxtools.exceptions as X
from odxtools.exceptions import OdxError
from odxtools.odxlink import (DocType, OdxDocFragment, OdxLinkDatabase, OdxLinkId, OdxLinkRef, resolve_snref)
from odxtools.snrefcontext import SnRefContext
from odxtools.utils import retarget_snrefs
from pyvc.api import H
from pyvc.registry import harness

FRAGS = [OdxDocFragment("container", DocType.CONTAINER), OdxDocFragment("layerA", DocType.LAYER),
         OdxDocFragment("layerB", DocType.LAYER), OdxDocFragment("other", DocType.CONTAINER)]
IDS = ["x", "y"]


class Thing:

    def __init__(self, tag):
        self.tag = tag


class OtherThing:

    def __init__(self, tag):
        self.tag = tag


def _arbitrary_db(relevant_frags=None, relevant_ids=None):
    """an ODXLINK database over 4 fragments x 2 local ids; identical local ids in different fragments name different
    objects.  Presence and type of the entries that can influence the operation under test are symbolic; all other
    entries are present (so that binding to one of them by mistake is observable)."""
    db = OdxLinkDatabase()
    content = {}
    for fi in range(len(FRAGS)):
        rel = relevant_frags is None or fi in relevant_frags
        if (not rel) or H.bool(f"frag{fi}_known"):
            db._db[FRAGS[fi]] = {}
            for lid in IDS:
                relid = rel and (relevant_ids is None or lid in relevant_ids)
                if (not relid) or H.bool(f"has_{fi}_{lid}"):
                    obj = Thing((fi, lid)) if ((not relid) or H.bool(f"is_thing_{fi}_{lid}")) else OtherThing((fi, lid))
                    db._db[FRAGS[fi]][lid] = obj
                    content[(fi, lid)] = obj
    return db, content


def _snapshot(db):
    return {f: dict(d) for f, d in db._db.items()}


def _same_view(db, snap):
    if set(db._db.keys()) != set(snap.keys()):
        return False
    for f, d in db._db.items():
        if set(d.keys()) != set(snap[f].keys()):
            return False
        for k, v in d.items():
            if v is not snap[f][k]:
                return False
    return True


def _resolve_family(tier, seed):
    shapes = [[], [0], [1], [0, 1], [0, 2], [1, 0], [3], [0, 1, 2]]
    return [{"ref_frags": s, "lenient_fn": lf} for s in shapes for lf in (False, True)]


@harness(props=["C10"], strength="E", family=_resolve_family,
         functions=[OdxLinkDatabase.resolve, OdxLinkDatabase.resolve_lenient], covers=["found", "not-found"])
def resolve_contract(ref_frags, lenient_fn):
    """resolve(ref) returns the object stored under ref.ref_id in the innermost (last listed) fragment of ref.ref_docs
    that has one; none -> KeyError in strict mode (None from resolve_lenient / in lenient mode); wrong expected type ->
    error in strict mode; the database is not modified"""
    strict = H.bool("strict")
    H.set_global(X, "strict_mode", strict)
    lid = "x"
    db, content = _arbitrary_db(ref_frags, [lid])
    snap = _snapshot(db)
    ref = OdxLinkRef(lid, [FRAGS[i] for i in ref_frags])
    expect_type = H.pick("expected_type", [None, Thing])
    expected = None
    for fi in reversed(ref_frags):
        if expected is None and (fi, lid) in content:
            expected = content[(fi, lid)]
    try:
        if lenient_fn:
            r = db.resolve_lenient(ref, expect_type)
        else:
            r = db.resolve(ref, expect_type)
    except KeyError:
        H.cover("not-found")
        H.check("C10:unresolvable-reference-raises-only-if-nothing-carries-the-id",
                H.And(expected is None, strict, not lenient_fn))
        H.check("frame:database-unchanged", _same_view(db, snap))
        return
    except OdxError:
        H.check("C10:type-error-only-if-the-object-has-the-wrong-type",
                H.And(strict, expected is not None, expect_type is not None,
                      not isinstance(expected, Thing)))
        return
    if expected is None:
        H.cover("not-found")
        H.check("C10:dangling-reference-is-an-error-in-strict-mode", H.Or(lenient_fn, H.Not(strict)))
        H.check("C10:dangling-reference-binds-to-nothing", r is None)
    else:
        H.cover("found")
        H.check("C10:reference-binds-to-the-object-carrying-the-id-in-the-innermost-fragment", r is expected)
        if expect_type is not None and not isinstance(expected, Thing):
            H.check("C10:wrong-type-is-an-error-in-strict-mode", H.Not(strict))
    H.check("frame:database-unchanged", _same_view(db, snap))


@harness(props=["C10"], strength="E",
         family=lambda t, s: [{"overwrite": o, "id_frags": f} for o in (True, False) for f in ([0], [0, 1], [3], [])],
         functions=[OdxLinkDatabase.update], covers=["done"])
def update_contract(overwrite, id_frags):
    """update(): whole-map postcondition - the new object is stored under its local id in every fragment of its id
    (only where nothing was stored before if overwrite=False); every other entry is unchanged"""
    lid = "x"
    db, content = _arbitrary_db(id_frags, [lid])
    snap = _snapshot(db)
    new_obj = Thing("new")
    db.update({OdxLinkId(lid, [FRAGS[i] for i in id_frags]): new_obj}, overwrite=overwrite)
    H.cover("done")
    for fi in range(len(FRAGS)):
        f = FRAGS[fi]
        for k in IDS:
            before = snap.get(f, {}).get(k)
            after = db._db.get(f, {}).get(k)
            if fi in id_frags and k == lid:
                want = new_obj if (overwrite or before is None) else before
            else:
                want = before
            H.check("C10:update-whole-map-postcondition", after is want)
    H.check("C10:update-adds-no-other-fragments",
            set(db._db.keys()) == set(snap.keys()) | {FRAGS[i] for i in id_frags})


@harness(props=["C10"], strength="E", family=lambda t, s: [{"docref": d, "doctype": dt, "idref": i}
                                                            for d in (None, "other") for dt in (None, "CONTAINER", "BOGUS")
                                                            for i in (None, "x")],
         functions=[OdxLinkRef.from_et, OdxLinkRef.from_id, OdxLinkId.__eq__, OdxLinkId.__hash__],
         covers=["ref"])
def reference_construction(docref, doctype, idref):
    """OdxLinkRef.from_et: DOCREF present -> exactly that fragment, absent -> the referring document's fragments;
    ill-formed references are errors in strict mode; from_id round trip; equal ids hash equal"""
    strict = H.bool("strict")
    H.set_global(X, "strict_mode", strict)
    attrib = {}
    if idref is not None:
        attrib["ID-REF"] = idref
    if docref is not None:
        attrib["DOCREF"] = docref
    if doctype is not None:
        attrib["DOCTYPE"] = doctype
    et = ElementTree.Element("SOME-REF", attrib)
    source = [FRAGS[0], FRAGS[1]]
    wellformed = idref is not None and ((docref is None) == (doctype is None)) and doctype != "BOGUS"
    try:
        ref = OdxLinkRef.from_et(et, source)
    except OdxError:
        H.check("C10:only-ill-formed-references-are-rejected", H.And(strict, not wellformed))
        return
    if not wellformed:
        H.check("C10:ill-formed-reference-is-an-error-in-strict-mode", H.Not(strict))
        return
    H.cover("ref")
    H.check("C10:reference-carries-the-id", ref.ref_id == idref)
    if docref is not None:
        H.check("C10:docref-selects-exactly-the-referenced-document",
                ref.ref_docs == [OdxDocFragment(docref, DocType(doctype))])
    else:
        H.check("C10:without-docref-the-referring-documents-are-searched", ref.ref_docs == source)
    a = OdxLinkId("x", [FRAGS[0], FRAGS[1]])
    b = OdxLinkId("x", [OdxDocFragment("container", DocType.CONTAINER), OdxDocFragment("layerA", DocType.LAYER)])
    c = OdxLinkId("x", [FRAGS[0], FRAGS[2]])
    H.check("C10:equal-ids-are-equal-and-hash-equal", H.And(a == b, hash(a) == hash(b), not (a == c), not (a == "x")))
    r2 = OdxLinkRef.from_id(a)
    H.check("C10:from-id-refers-to-the-id", H.And(r2.ref_id == a.local_id, r2.ref_docs == a.doc_fragments))


class Named:

    def __init__(self, short_name, tag):
        self.short_name = short_name
        self.tag = tag


class OtherNamed:

    def __init__(self, short_name, tag):
        self.short_name = short_name
        self.tag = tag


@harness(props=["C10"], strength="B", family=lambda t, s: [{"n": n} for n in ((0, 1, 2, 3) if t == "quick" else (0, 1, 2, 3, 4))],
         bound="candidate list of 0..3 (quick) / 0..4 (thorough) named objects over a 2-name alphabet",
         functions=[resolve_snref], covers=["unique", "none", "ambiguous"])
def snref_contract(n):
    """resolve_snref returns *the* item with that short name; none, several or a wrong type are errors in strict mode"""
    strict = H.bool("strict")
    H.set_global(X, "strict_mode", strict)
    items = []
    for i in range(n):
        name = H.pick(f"name{i}", ["t", "u"])
        items.append(Named(name, i) if H.bool(f"is_named{i}") else OtherNamed(name, i))
    expect_type = H.pick("expected_type", [None, Named])
    matches = [x for x in items if x.short_name == "t"]
    try:
        r = resolve_snref("t", items, expect_type)
    except OdxError:
        H.check("C10:snref-error-only-if-not-uniquely-resolvable-to-the-expected-type",
                H.And(strict, len(matches) != 1 or (expect_type is not None and not isinstance(matches[0], Named))))
        return
    if len(matches) == 1:
        H.cover("unique")
        H.check("C10:snref-binds-to-the-uniquely-named-object", r is matches[0])
        if expect_type is not None and not isinstance(matches[0], Named):
            H.check("C10:snref-wrong-type-is-an-error-in-strict-mode", H.Not(strict))
    else:
        H.cover("none" if not matches else "ambiguous")
        H.check("C10:unresolvable-or-ambiguous-snref-is-an-error-in-strict-mode", H.Not(strict))
        if not matches:
            H.check("C10:unresolvable-snref-binds-to-nothing", r is None)


class GhostLayer:
    """stands for a DiagLayer in retarget_snrefs: records the context it is re-resolved with"""

    def __init__(self, name):
        self.name = name
        self.parent_refs = []
        self.resolved_with = []

    def _resolve_snrefs(self, context):
        self.resolved_with.append((context.diag_layer, context.database))


class GhostParentRef:

    def __init__(self, layer):
        self.layer = layer


SHAPES = {
    "single": {"ev": []},
    "chain3": {"ev": ["bv"], "bv": ["fg"], "fg": []},
    "chain4": {"ev": ["bv"], "bv": ["fg"], "fg": ["pr"], "pr": []},
    "diamond": {"ev": ["bv", "sd"], "bv": ["pr"], "sd": [], "pr": []},
    "two-parents": {"bv": ["fg", "pr"], "fg": ["pr"], "pr": []},
}


@harness(props=["C10"], strength="B", family=lambda t, s: [{"shape": k} for k in SHAPES],
         bound="five hierarchy shapes (single layer, chains of depth 3 and 4, diamond, two parents sharing an ancestor)",
         functions=[retarget_snrefs])
def retarget_contract(shape):
    """retarget_snrefs(db, L): every layer reachable from L through parent references (L included) is re-resolved with
    context.diag_layer = L and context.database = db; no other layer is touched"""
    layers = {k: GhostLayer(k) for k in SHAPES[shape]}
    outsider = GhostLayer("outsider")
    for k, parents in SHAPES[shape].items():
        layers[k].parent_refs = [GhostParentRef(layers[p]) for p in parents]
    target = layers[list(SHAPES[shape].keys())[0]]
    db = object()
    retarget_snrefs(db, target)
    reachable = []
    todo = [target]
    while todo:
        x = todo.pop()
        if x not in reachable:
            reachable.append(x)
            todo.extend([pr.layer for pr in x.parent_refs])
    for layer in layers.values():
        if layer in reachable:
            H.check("C10:every-reachable-layer-is-re-resolved", len(layer.resolved_with) >= 1)
            H.check("C10:re-resolution-targets-the-requested-layer-and-database",
                    all([(dl is target and d is db) for (dl, d) in layer.resolved_with]))
        else:
            H.check("C10:unreachable-layers-are-not-touched", len(layer.resolved_with) == 0)
    H.check("C10:unreachable-layers-are-not-touched", len(outsider.resolved_with) == 0)
