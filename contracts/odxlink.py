import os
from pyvc import static_checks
# Contracts for odxtools/odxlink.py and odxtools/utils.retarget_snrefs (property C10)
from xml.etree import ElementTree

import odxtools.exceptions as X
from odxtools.exceptions import OdxError
from odxtools.odxlink import (DocType, OdxDocFragment, OdxLinkDatabase, OdxLinkId, OdxLinkRef, resolve_snref)
from odxtools.snrefcontext import SnRefContext
from odxtools.utils import retarget_snrefs
from pyvc.api import H
from pyvc.registry import harness

FRAGS = [OdxDocFragment("container", DocType.CONTAINER), OdxDocFragment("layerA", DocType.LAYER),
         OdxDocFragment("layerB", DocType.LAYER), OdxDocFragment("other", DocType.CONTAINER)]
IDS = ["x", "y"]


class Thing:

    def __init__(self, tag):
        self.tag = tag


class OtherThing:

    def __init__(self, tag):
        self.tag = tag


def _arbitrary_db(relevant_frags=None, relevant_ids=None):
    """an ODXLINK database over 4 fragments x 2 local ids; identical local ids in different fragments name different
    objects.  Presence and type of the entries that can influence the operation under test are symbolic; all other
    entries are present (so that binding to one of them by mistake is observable)."""
    db = OdxLinkDatabase()
    content = {}
    for fi in range(len(FRAGS)):
        rel = relevant_frags is None or fi in relevant_frags
        if (not rel) or H.bool(f"frag{fi}_known"):
            db._db[FRAGS[fi]] = {}
            for lid in IDS:
                relid = rel and (relevant_ids is None or lid in relevant_ids)
                if (not relid) or H.bool(f"has_{fi}_{lid}"):
                    obj = Thing((fi, lid)) if ((not relid) or H.bool(f"is_thing_{fi}_{lid}")) else OtherThing((fi, lid))
                    db._db[FRAGS[fi]][lid] = obj
                    content[(fi, lid)] = obj
    return db, content


def _snapshot(db):
    return {f: dict(d) for f, d in db._db.items()}


def _same_view(db, snap):
    if set(db._db.keys()) != set(snap.keys()):
        return False
    for f, d in db._db.items():
        if set(d.keys()) != set(snap[f].keys()):
            return False
        for k, v in d.items():
            if v is not snap[f][k]:
                return False
    return True


def _resolve_family(tier, seed):
    shapes = [[], [0], [1], [0, 1], [0, 2], [1, 0], [3], [0, 1, 2]]
    return [{"ref_frags": s, "lenient_fn": lf} for s in shapes for lf in (False, True)]


@harness(props=["C10", "C18"], strength="E", family=_resolve_family,
         functions=[OdxLinkDatabase.resolve, OdxLinkDatabase.resolve_lenient], covers=["found", "not-found"])
def resolve_contract(ref_frags, lenient_fn):
    """resolve(ref) returns the object stored under ref.ref_id in the innermost (last listed) fragment of ref.ref_docs
    that has one; none -> KeyError in strict mode (None from resolve_lenient / in lenient mode); wrong expected type ->
    error in strict mode; the database is not modified"""
    strict = H.bool("strict")
    H.set_global(X, "strict_mode", strict)
    lid = "x"
    db, content = _arbitrary_db(ref_frags, [lid])
    snap = _snapshot(db)
    ref = OdxLinkRef(lid, [FRAGS[i] for i in ref_frags])
    expect_type = H.pick("expected_type", [None, Thing])
    expected = None
    for fi in reversed(ref_frags):
        if expected is None and (fi, lid) in content:
            expected = content[(fi, lid)]
    try:
        if lenient_fn:
            r = db.resolve_lenient(ref, expect_type)
        else:
            r = db.resolve(ref, expect_type)
    except KeyError:
        H.cover("not-found")
        H.check("C10:unresolvable-reference-raises-only-if-nothing-carries-the-id",
                H.And(expected is None, strict, not lenient_fn))
        H.check("frame:database-unchanged", _same_view(db, snap))
        return
    except OdxError:
        H.check("C10:type-error-only-if-the-object-has-the-wrong-type",
                H.And(strict, expected is not None, expect_type is not None,
                      not isinstance(expected, Thing)))
        return
    if expected is None:
        H.cover("not-found")
        H.check("C10:dangling-reference-is-an-error-in-strict-mode", H.Or(lenient_fn, H.Not(strict)))
        H.check("C10:dangling-reference-binds-to-nothing", r is None)
    else:
        H.cover("found")
        H.check("C10,C18:reference-binds-to-the-object-carrying-the-id-in-the-innermost-fragment", r is expected)
        if expect_type is not None and not isinstance(expected, Thing):
            H.check("C10:wrong-type-is-an-error-in-strict-mode", H.Not(strict))
    H.check("frame:database-unchanged", _same_view(db, snap))


@harness(props=["C10"], strength="E",
         family=lambda t, s: [{"overwrite": o, "id_frags": f} for o in (True, False) for f in ([0], [0, 1], [3], [])],
         functions=[OdxLinkDatabase.update], covers=["done"])
def update_contract(overwrite, id_frags):
    """update(): whole-map postcondition - the new object is stored under its local id in every fragment of its id
    (only where nothing was stored before if overwrite=False); every other entry is unchanged"""
    lid = "x"
    db, content = _arbitrary_db(id_frags, [lid])
    snap = _snapshot(db)
    new_obj = Thing("new")
    db.update({OdxLinkId(lid, [FRAGS[i] for i in id_frags]): new_obj}, overwrite=overwrite)
    H.cover("done")
    for fi in range(len(FRAGS)):
        f = FRAGS[fi]
        for k in IDS:
            before = snap.get(f, {}).get(k)
            after = db._db.get(f, {}).get(k)
            if fi in id_frags and k == lid:
                want = new_obj if (overwrite or before is None) else before
            else:
                want = before
            H.check("C10:update-whole-map-postcondition", after is want)
    H.check("C10:update-adds-no-other-fragments",
            set(db._db.keys()) == set(snap.keys()) | {FRAGS[i] for i in id_frags})


@harness(props=["C10"], strength="E", family=lambda t, s: [{"docref": d, "doctype": dt, "idref": i}
                                                            for d in (None, "other") for dt in (None, "CONTAINER", "BOGUS")
                                                            for i in (None, "x")],
         functions=[OdxLinkRef.from_et, OdxLinkRef.from_id, OdxLinkId.__eq__, OdxLinkId.__hash__],
         covers=["ref"])
def reference_construction(docref, doctype, idref):
    """OdxLinkRef.from_et: DOCREF present -> exactly that fragment, absent -> the referring document's fragments;
    ill-formed references are errors in strict mode; from_id round trip; equal ids hash equal"""
    strict = H.bool("strict")
    H.set_global(X, "strict_mode", strict)
    attrib = {}
    if idref is not None:
        attrib["ID-REF"] = idref
    if docref is not None:
        attrib["DOCREF"] = docref
    if doctype is not None:
        attrib["DOCTYPE"] = doctype
    et = ElementTree.Element("SOME-REF", attrib)
    source = [FRAGS[0], FRAGS[1]]
    wellformed = idref is not None and ((docref is None) == (doctype is None)) and doctype != "BOGUS"
    try:
        ref = OdxLinkRef.from_et(et, source)
    except OdxError:
        H.check("C10:only-ill-formed-references-are-rejected", H.And(strict, not wellformed))
        return
    if not wellformed:
        H.check("C10:ill-formed-reference-is-an-error-in-strict-mode", H.Not(strict))
        return
    H.cover("ref")
    H.check("C10:reference-carries-the-id", ref.ref_id == idref)
    if docref is not None:
        H.check("C10:docref-selects-exactly-the-referenced-document",
                ref.ref_docs == [OdxDocFragment(docref, DocType(doctype))])
    else:
        H.check("C10:without-docref-the-referring-documents-are-searched", ref.ref_docs == source)
    a = OdxLinkId("x", [FRAGS[0], FRAGS[1]])
    b = OdxLinkId("x", [OdxDocFragment("container", DocType.CONTAINER), OdxDocFragment("layerA", DocType.LAYER)])
    c = OdxLinkId("x", [FRAGS[0], FRAGS[2]])
    H.check("C10:equal-ids-are-equal-and-hash-equal", H.And(a == b, hash(a) == hash(b), not (a == c), not (a == "x")))
    r2 = OdxLinkRef.from_id(a)
    H.check("C10:from-id-refers-to-the-id", H.And(r2.ref_id == a.local_id, r2.ref_docs == a.doc_fragments))


from odxtools.diagcomm import RelatedDiagCommRef  # noqa: E402
from odxtools.dynenddopref import DynEndDopRef  # noqa: E402


@harness(props=["C10"], strength="E", family=lambda t, s: [{"kind": k, "docref": d} for k in ("related-diag-comm", "dyn-end-dop")
                                                            for d in (None, "other")],
         functions=[RelatedDiagCommRef.from_et, DynEndDopRef.from_et, OdxLinkRef.from_et], covers=["ref"])
def specialised_references_keep_the_target_document(kind, docref):
    """the reference classes with additional content (RELATED-DIAG-COMM-REF, DYN-END-DOP-REF) refer to the same
    document as a plain reference with the same attributes: DOCREF present -> exactly that document, absent -> the
    referring document's fragments"""
    attrib = {"ID-REF": "target"}
    if docref is not None:
        attrib["DOCREF"] = docref
        attrib["DOCTYPE"] = "CONTAINER"
    et = ElementTree.Element("SOME-REF", attrib)
    if kind == "related-diag-comm":
        ElementTree.SubElement(et, "RELATION-TYPE").text = "PRE-CONDITION"
        ref = RelatedDiagCommRef.from_et(et, [FRAGS[0], FRAGS[1]])
        H.check("C10:additional-content-is-kept", ref.relation_type == "PRE-CONDITION")
    else:
        ElementTree.SubElement(et, "TERMINATION-VALUE").text = "0xFF"
        ref = DynEndDopRef.from_et(et, [FRAGS[0], FRAGS[1]])
        H.check("C10:additional-content-is-kept", ref.termination_value_raw == "0xFF")
    H.cover("ref")
    plain = OdxLinkRef.from_et(et, [FRAGS[0], FRAGS[1]])
    H.check("C10:reference-carries-the-id", ref.ref_id == "target")
    H.check("C10:docref-selects-exactly-the-referenced-document",
            H.And(ref.ref_docs == plain.ref_docs,
                  ref.ref_docs == ([OdxDocFragment(docref, DocType.CONTAINER)] if docref is not None
                                   else [FRAGS[0], FRAGS[1]])))


class Named:

    def __init__(self, short_name, tag):
        self.short_name = short_name
        self.tag = tag


class OtherNamed:

    def __init__(self, short_name, tag):
        self.short_name = short_name
        self.tag = tag


@harness(props=["C10"], strength="B", family=lambda t, s: [{"n": n} for n in ((0, 1, 2, 3) if t == "quick" else (0, 1, 2, 3, 4))],
         bound="candidate list of 0..3 (quick) / 0..4 (thorough) named objects over a 2-name alphabet",
         functions=[resolve_snref], covers=["unique", "none", "ambiguous"])
def snref_contract(n):
    """resolve_snref returns *the* item with that short name; none, several or a wrong type are errors in strict mode"""
    strict = H.bool("strict")
    H.set_global(X, "strict_mode", strict)
    items = []
    for i in range(n):
        name = H.pick(f"name{i}", ["t", "u"])
        items.append(Named(name, i) if H.bool(f"is_named{i}") else OtherNamed(name, i))
    expect_type = H.pick("expected_type", [None, Named])
    matches = [x for x in items if x.short_name == "t"]
    try:
        r = resolve_snref("t", items, expect_type)
    except OdxError:
        H.check("C10:snref-error-only-if-not-uniquely-resolvable-to-the-expected-type",
                H.And(strict, len(matches) != 1 or (expect_type is not None and not isinstance(matches[0], Named))))
        return
    if len(matches) == 1:
        H.cover("unique")
        H.check("C10:snref-binds-to-the-uniquely-named-object", r is matches[0])
        if expect_type is not None and not isinstance(matches[0], Named):
            H.check("C10:snref-wrong-type-is-an-error-in-strict-mode", H.Not(strict))
    else:
        H.cover("none" if not matches else "ambiguous")
        H.check("C10:unresolvable-or-ambiguous-snref-is-an-error-in-strict-mode", H.Not(strict))
        if not matches:
            H.check("C10:unresolvable-snref-binds-to-nothing", r is None)


class GhostLayer:
    """stands for a DiagLayer in retarget_snrefs: records the context it is re-resolved with"""

    def __init__(self, name):
        self.name = name
        self.parent_refs = []
        self.resolved_with = []

    def _resolve_snrefs(self, context):
        self.resolved_with.append((context.diag_layer, context.database))


class GhostParentRef:

    def __init__(self, layer):
        self.layer = layer


SHAPES = {
    "single": {"ev": []},
    "chain3": {"ev": ["bv"], "bv": ["fg"], "fg": []},
    "chain4": {"ev": ["bv"], "bv": ["fg"], "fg": ["pr"], "pr": []},
    "diamond": {"ev": ["bv", "sd"], "bv": ["pr"], "sd": [], "pr": []},
    "two-parents": {"bv": ["fg", "pr"], "fg": ["pr"], "pr": []},
}


@harness(props=["C10"], strength="B", family=lambda t, s: [{"shape": k} for k in SHAPES],
         bound="five hierarchy shapes (single layer, chains of depth 3 and 4, diamond, two parents sharing an ancestor)",
         functions=[retarget_snrefs])
def retarget_contract(shape):
    """retarget_snrefs(db, L): every layer reachable from L through parent references (L included) is re-resolved with
    context.diag_layer = L and context.database = db; no other layer is touched"""
    layers = {k: GhostLayer(k) for k in SHAPES[shape]}
    outsider = GhostLayer("outsider")
    for k, parents in SHAPES[shape].items():
        layers[k].parent_refs = [GhostParentRef(layers[p]) for p in parents]
    target = layers[list(SHAPES[shape].keys())[0]]
    db = object()
    retarget_snrefs(db, target)
    reachable = []
    todo = [target]
    while todo:
        x = todo.pop()
        if x not in reachable:
            reachable.append(x)
            todo.extend([pr.layer for pr in x.parent_refs])
    for layer in layers.values():
        if layer in reachable:
            H.check("C10:every-reachable-layer-is-re-resolved", len(layer.resolved_with) >= 1)
            H.check("C10:re-resolution-targets-the-requested-layer-and-database",
                    all([(dl is target and d is db) for (dl, d) in layer.resolved_with]))
        else:
            H.check("C10:unreachable-layers-are-not-touched", len(layer.resolved_with) == 0)
    H.check("C10:unreachable-layers-are-not-touched", len(outsider.resolved_with) == 0)


# ----------------------------------------------------------------------------------------------- SNREF call sites
# The call sites of resolve_snref named by the property (parameter -> DOP, table key -> table / table row, table struct
# -> table key, field -> structure / env-data description, table row -> structure / DOP, multiplexer case -> structure):
# each passes a name, a collection and an expected type.  Contract: the attribute is bound to the uniquely named object
# of the collection the ODX context prescribes; with none or several candidates of that name loading fails in strict
# mode - an object of the same name in a neighbouring collection is never bound instead.
from odxtools.basicstructure import BasicStructure  # noqa: E402
from odxtools.dataobjectproperty import DataObjectProperty  # noqa: E402
from odxtools.endofpdufield import EndOfPduField  # noqa: E402
from odxtools.environmentdatadescription import EnvironmentDataDescription  # noqa: E402
from odxtools.field import Field  # noqa: E402
from odxtools.multiplexercase import MultiplexerCase  # noqa: E402
from odxtools.nameditemlist import NamedItemList  # noqa: E402
from odxtools.parameters.parameterwithdop import ParameterWithDOP  # noqa: E402
from odxtools.parameters.tablekeyparameter import TableKeyParameter  # noqa: E402
from odxtools.parameters.tablestructparameter import TableStructParameter  # noqa: E402
from odxtools.parameters.systemparameter import SystemParameter  # noqa: E402
from odxtools.structure import Structure  # noqa: E402
from odxtools.table import Table  # noqa: E402
from odxtools.tablerow import TableRow  # noqa: E402


class GhostDDD:

    def __init__(self):
        self.data_object_props = NamedItemList([])
        self.structures = NamedItemList([])
        self.env_data_descs = NamedItemList([])
        self.tables = NamedItemList([])
        self.all_data_object_properties = NamedItemList([])


class GhostCtxLayer:

    def __init__(self, ddd):
        self.diag_data_dictionary_spec = ddd


def _obj(cls, name, tag):
    o = cls.__new__(cls)
    o.short_name = name
    o.tag = tag
    o.sdgs = []
    return o


# site -> (class of the referring object, attribute holding the name, attribute bound, class of the candidates,
#          collection searched, neighbouring collection holding a same-named decoy of another class)
SITES = {
    "parameter-dop": (SystemParameter, "dop_snref", "_dop", DataObjectProperty, "all_data_object_properties", "tables"),
    "tablekey-table": (TableKeyParameter, "table_snref", "_table", Table, "tables", "structures"),
    "tablekey-row": (TableKeyParameter, "table_row_snref", "_table_row", TableRow, "rows-of-the-table", "tables"),
    "tablestruct-key": (TableStructParameter, "table_key_snref", "_table_key", TableKeyParameter,
                        "parameters-of-the-context", "tables"),
    "field-structure": (EndOfPduField, "structure_snref", "_structure", Structure, "structures",
                        "env_data_descs"),
    "field-envdatadesc": (EndOfPduField, "env_data_desc_snref", "_env_data_desc", EnvironmentDataDescription,
                          "env_data_descs", "structures"),
    "tablerow-structure": (TableRow, "structure_snref", "_structure", Structure, "structures", "data_object_props"),
    "tablerow-dop": (TableRow, "dop_snref", "_dop", DataObjectProperty, "data_object_props", "structures"),
    "muxcase-structure": (MultiplexerCase, "structure_snref", "_structure", Structure, "structures",
                          "data_object_props"),
}
_OTHER_SNREFS = ["dop_snref", "table_snref", "table_row_snref", "table_key_snref", "structure_snref",
                 "env_data_desc_snref"]


@harness(props=["C10"], strength="B", family=lambda t, s: [{"site": k} for k in SITES],
         bound="nine SNREF call sites; the searched collection holds 0..2 objects of the referenced name (symbolic) plus "
         "one object of another name, a neighbouring collection holds a same-named object of another class",
         functions=[ParameterWithDOP._resolve_snrefs, TableKeyParameter._resolve_snrefs,
                    TableStructParameter._resolve_snrefs, Field._resolve_snrefs, TableRow._resolve_snrefs,
                    MultiplexerCase._resolve_snrefs, resolve_snref],
         covers=["unique", "none", "ambiguous"])
def snref_call_sites(site):
    """every short-name reference is bound to the uniquely named object of the collection its context prescribes, or
    loading fails in strict mode"""
    cls, name_attr, bound_attr, cand_cls, where, decoy_where = SITES[site]
    strict = H.bool("strict")
    H.set_global(X, "strict_mode", strict)
    count = H.pick("candidates_with_that_name", [0, 1, 2])
    cands = [_obj(cand_cls, "t", i) for i in range(count)]
    other = _obj(cand_cls, "u", 9)
    pool = [other] + cands if H.bool("other_name_first") else cands + [other]
    ddd = GhostDDD()
    # a same-named object of another class next door: never to be bound
    decoy_cls = Table if decoy_where == "tables" else Structure if decoy_where == "structures" else \
        EnvironmentDataDescription if decoy_where == "env_data_descs" else DataObjectProperty
    if decoy_where != where:
        setattr(ddd, decoy_where, NamedItemList([_obj(decoy_cls, "t", 7)]))
    ref = _obj(cls, "referrer", 0)
    for a in _OTHER_SNREFS:
        if hasattr(cls, "__dataclass_fields__") and a in cls.__dataclass_fields__:
            setattr(ref, a, None)
    setattr(ref, name_attr, "t")
    ctx = SnRefContext(database=None)
    ctx.diag_layer = GhostCtxLayer(ddd)
    named_table = None
    if where == "rows-of-the-table":
        tbl = _obj(Table, "tbl", 5)
        tbl._table_rows = NamedItemList(pool)
        ref._table = tbl
        named_table = tbl
        # (the rows of a table may be defined elsewhere and only be referenced by it: their own table is another one)
        elsewhere = _obj(Table, "pool", 6)
        for r in pool:
            r._table = elsewhere
    elif where == "parameters-of-the-context":
        ctx.parameters = NamedItemList(pool)
    else:
        setattr(ddd, where, NamedItemList(pool))
    if cls is TableRow:
        # what TableRow._resolve_snrefs does before the references: the key is converted using the table's key DOP
        tbl = _obj(Table, "tbl", 5)
        tbl._key_dop = None
        ref._table = tbl
        ref.key_raw = "1"
    try:
        ref._resolve_snrefs(ctx)
    except OdxError:
        H.check("C10:snref-error-only-if-not-uniquely-resolvable", H.And(strict, count != 1))
        return
    bound = getattr(ref, bound_attr, None)
    if named_table is not None:
        H.check("C10:the-table-named-by-the-key-stays-bound", ref._table is named_table)
    if count == 1:
        H.cover("unique")
        H.check("C10:snref-binds-to-the-uniquely-named-object-of-its-context", bound is cands[0])
    else:
        H.cover("none" if count == 0 else "ambiguous")
        H.check("C10:unresolvable-or-ambiguous-snref-is-an-error-in-strict-mode", H.Not(strict))


# ---------------------------------------------------------------------------------------------- frame: doc_frags
# The fragment list handed to a from_et function is shared between all siblings parsed from one container.  A function
# that adds the fragment of its own layer must work on a copy (DiagLayerRaw.from_et does), otherwise the identifiers of
# one layer are registered in the fragments of its siblings and fragment-relative references bind to the wrong object.
# Frame obligation, decided syntactically per function with a parameter named doc_frags: while the name still denotes
# the caller's list (i.e. before it is rebound to a fresh object) the list is not mutated.
import ast  # noqa: E402

from pyvc.static_checks import repo_py_files, static  # noqa: E402

_MUTATORS = {"append", "extend", "insert", "pop", "remove", "clear", "sort", "reverse", "__iadd__", "__setitem__",
             "__delitem__"}


def _doc_frags_frame(fn):
    rebound = None
    events = []
    for n in ast.walk(fn):
        if isinstance(n, (ast.Assign, ast.AnnAssign)):
            targets = n.targets if isinstance(n, ast.Assign) else [n.target]
            for t in targets:
                if isinstance(t, ast.Name) and t.id == "doc_frags":
                    v = n.value
                    # an alias of itself is no fresh object
                    if not (isinstance(v, ast.Name) and v.id == "doc_frags"):
                        rebound = n.lineno if rebound is None else min(rebound, n.lineno)
                elif isinstance(t, ast.Subscript) and isinstance(t.value, ast.Name) and t.value.id == "doc_frags":
                    events.append((n.lineno, "item assignment"))
        elif isinstance(n, ast.AugAssign) and isinstance(n.target, ast.Name) and n.target.id == "doc_frags":
            events.append((n.lineno, "augmented assignment (in-place for lists)"))
        elif isinstance(n, ast.Delete):
            for t in n.targets:
                if isinstance(t, ast.Subscript) and isinstance(t.value, ast.Name) and t.value.id == "doc_frags":
                    events.append((n.lineno, "item deletion"))
        elif isinstance(n, ast.Call) and isinstance(n.func, ast.Attribute) and isinstance(n.func.value, ast.Name) \
                and n.func.value.id == "doc_frags" and n.func.attr in _MUTATORS:
            events.append((n.lineno, f".{n.func.attr}()"))
    return [(ln, what) for (ln, what) in events if rebound is None or ln < rebound or
            (ln == rebound and "augmented" in what)]


@static("C10")
def doc_frags_frame(tier):
    out = []
    for path in repo_py_files():
        rel = os.path.relpath(path, static_checks.REPO)
        tree = ast.parse(open(path).read())
        for fn in ast.walk(tree):
            if not isinstance(fn, (ast.FunctionDef, ast.AsyncFunctionDef)):
                continue
            names = [a.arg for a in fn.args.args + fn.args.kwonlyargs + fn.args.posonlyargs]
            if "doc_frags" not in names:
                continue
            bad = _doc_frags_frame(fn)
            out.append({"name": f"doc-frags-frame[{rel}:{fn.name}@{fn.lineno}]", "ok": not bad,
                        "detail": [f"{rel}:{ln}: {what} on the caller's fragment list" for (ln, what) in bad] or
                        "the caller's fragment list is not modified"})
    return out


# ----------------------------------------------------------------------------------------------- import references
# DiagLayer._resolve_odxlinks: objects of imported ECU-SHARED-DATA layers are referenceable from the importing layer as
# if they were defined there - and only from there: the database handed in is not modified (frame), so that a sibling
# layer of the same container that imports nothing cannot bind to them.
from odxtools.diaglayers.diaglayer import DiagLayer  # noqa: E402
from odxtools.diaglayers.diaglayertype import DiagLayerType  # noqa: E402

F_CONT, F_A, F_B, F_SDC, F_SD = (OdxDocFragment("cont", DocType.CONTAINER), OdxDocFragment("A", DocType.LAYER),
                                 OdxDocFragment("B", DocType.LAYER), OdxDocFragment("sdcont", DocType.CONTAINER),
                                 OdxDocFragment("SD", DocType.LAYER))


class GhostLayerRaw:

    def __init__(self, name, frags, kind, import_refs, own):
        self.short_name = name
        self.odx_id = OdxLinkId(name, frags)
        self.variant_type = kind
        self.import_refs = import_refs
        self.own = own
        self.resolved_with = None

    def _build_odxlinks(self):
        return dict(self.own)

    def _resolve_odxlinks(self, odxlinks):
        self.resolved_with = odxlinks


def _layer(raw):
    L = DiagLayer.__new__(DiagLayer)
    L.diag_layer_raw = raw
    return L


@harness(props=["C10"], strength="B", family=lambda t, s: [{"n_imports": n} for n in (0, 1)],
         bound="an importing layer and a sibling in one container, one ECU-SHARED-DATA layer in another container; "
         "presence of the imported object and of a same-named local object symbolic",
         functions=[DiagLayer._resolve_odxlinks, OdxLinkDatabase.update, OdxLinkDatabase.resolve_lenient],
         covers=["resolved"])
def import_refs_extend_the_importing_layer_only(n_imports):
    """imported objects are visible from the importing layer's fragments while its references are resolved; the
    database itself is unchanged, a sibling layer does not see them; local definitions win"""
    db = OdxLinkDatabase()
    shared = Thing("defined by the shared-data layer")
    local = Thing("defined by the importing layer")
    has_local = H.bool("importing_layer_defines_the_same_id")
    sd = _layer(GhostLayerRaw("SD", [F_SDC, F_SD], DiagLayerType.ECU_SHARED_DATA, [],
                              {OdxLinkId("X", [F_SDC, F_SD]): shared}))
    a = _layer(GhostLayerRaw("A", [F_CONT, F_A], DiagLayerType.BASE_VARIANT,
                             [OdxLinkRef("SD", [F_SDC, F_SD])] if n_imports else [], {}))
    db.update({sd.diag_layer_raw.odx_id: sd, OdxLinkId("X", [F_SDC, F_SD]): shared, a.diag_layer_raw.odx_id: a})
    if has_local:
        db.update({OdxLinkId("X", [F_CONT, F_A]): local})
    before = _snapshot(db)
    a._resolve_odxlinks(db)
    H.cover("resolved")
    used = a.diag_layer_raw.resolved_with
    seen_from_a = used.resolve_lenient(OdxLinkRef("X", [F_CONT, F_A]))
    want = local if has_local else (shared if n_imports else None)
    H.check("C10:imported-objects-are-visible-from-the-importing-layer-local-definitions-win", seen_from_a is want)
    H.check("C10:frame-the-database-handed-in-is-unchanged", _same_view(db, before))
    seen_from_sibling = db.resolve_lenient(OdxLinkRef("X", [F_CONT, F_B]))
    # (what the importing layer defines itself is visible through the container fragment, as for every layer)
    H.check("C10:a-sibling-layer-that-imports-nothing-does-not-see-the-imported-objects",
            seen_from_sibling is (local if has_local else None))


# ------------------------------------------------------------------------------------------------ Database.refresh
# after every refresh the ODXLINK database of a Database holds exactly the objects its containers define at that time
# (an object that was removed is no longer resolvable: a reference to it is dangling, not bound to the stale object)
from odxtools.database import Database  # noqa: E402


class GhostContainer:
    """a DIAG-LAYER-CONTAINER as Database.refresh() uses it"""

    def __init__(self, name, objects):
        self.short_name = name
        self.objects = objects
        self.diag_layers = []
        self.ecu_shared_datas = []
        self.protocols = []
        self.functional_groups = []
        self.base_variants = []
        self.ecu_variants = []

    def _build_odxlinks(self):
        return {OdxLinkId(lid, [FRAGS[0]]): obj for (lid, obj) in self.objects}

    def _resolve_odxlinks(self, odxlinks):
        pass

    def _finalize_init(self, database, odxlinks):
        pass

    def _resolve_snrefs(self, context):
        pass


@harness(props=["C10"], strength="B", family=lambda t, s: [{"edit": e} for e in ("none", "remove", "replace")],
         bound="one container with two identifiable objects; one of them is removed or replaced between two refreshes",
         functions=[Database.refresh, Database._build_odxlinks], covers=["refreshed"])
def refresh_rebuilds_the_link_database(edit):
    """Database.refresh(): the ODXLINK database holds exactly what the containers define now"""
    db = Database()
    keep, victim, substitute = Thing("keep"), Thing("victim"), Thing("substitute")
    dlc = GhostContainer("dlc", [("keep", keep), ("victim", victim)])
    db._diag_layer_containers = NamedItemList([dlc])
    db.refresh()
    first = db.odxlinks.resolve_lenient(OdxLinkRef("victim", [FRAGS[0]]))
    if edit == "remove":
        dlc.objects = [("keep", keep)]
    elif edit == "replace":
        dlc.objects = [("keep", keep), ("victim", substitute)]
    db.refresh()
    H.cover("refreshed")
    second = db.odxlinks.resolve_lenient(OdxLinkRef("victim", [FRAGS[0]]))
    want = {"none": victim, "remove": None, "replace": substitute}[edit]
    H.check("C10:a-reference-resolves-to-the-object-that-carries-the-id-now", H.And(first is victim, second is want))
    H.check("C10:untouched-objects-stay-resolvable",
            db.odxlinks.resolve_lenient(OdxLinkRef("keep", [FRAGS[0]])) is keep)


# ---------------------------------------------------------------------------- table rows referenced from another table
# A table may list rows of another table by TABLE-ROW-REF.  Such a row belongs to the table (and layer) that defines it:
# its short-name references are resolved there, the referencing table does not touch them.


class RecordingRow(TableRow):
    """a real TableRow whose resolution steps are recorded"""

    def _resolve_odxlinks(self, odxlinks):
        self.log.append(("odxlinks", self.short_name))

    def _resolve_snrefs(self, context):
        self.log.append(("snrefs", self.short_name, context.diag_layer))


@harness(props=["C10"], strength="B", family=lambda t, s: [{"referenced_first": a} for a in (False, True)],
         bound="one table with one inline row and one row referenced from another table",
         functions=[Table._resolve_odxlinks, Table._resolve_snrefs], covers=["resolved"])
def referenced_table_rows_are_not_rebound(referenced_first):
    """Table: the rows it offers are the inline rows and the referenced ones, in document order; only the inline rows
    have their references resolved in this table's context"""
    log = []
    inline = RecordingRow.__new__(RecordingRow)
    inline.short_name, inline.log = "inline", log
    foreign = RecordingRow.__new__(RecordingRow)
    foreign.short_name, foreign.log = "foreign", log
    db = OdxLinkDatabase()
    db.update({OdxLinkId("row.foreign", [FRAGS[0]]): foreign})
    ref = OdxLinkRef("row.foreign", [FRAGS[0]])
    tbl = _obj(Table, "tbl", 1)
    tbl.key_dop_ref = None
    tbl.table_diag_comm_connectors = []
    tbl.table_rows_raw = [ref, inline] if referenced_first else [inline, ref]
    tbl._resolve_odxlinks(db)
    ctx = SnRefContext(database=None)
    ctx.diag_layer = GhostCtxLayer(GhostDDD())
    tbl._resolve_snrefs(ctx)
    H.cover("resolved")
    H.check("C10:a-table-offers-its-inline-and-its-referenced-rows-in-document-order",
            [r.short_name for r in tbl.table_rows] == (["foreign", "inline"] if referenced_first else ["inline", "foreign"]))
    H.check("C10:only-inline-rows-are-resolved-in-the-context-of-the-table",
            [e[1] for e in log] == ["inline", "inline"])
