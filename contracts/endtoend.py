# End-to-end contracts over real (concrete) message descriptions with symbolic values (properties C01-C05, C08, C17).
#
# The abstract-children harness (composite.py) covers the composite codecs for any children obeying the Codec interface
# contract, and leaf.py covers the atomic encoder/decoder.  This module closes the gap between the two for the concrete
# parameter, data-object and diag-coded-type classes: a family of small but real request/response descriptions is built
# from the real classes (contracts/build.py) and the whole real stack - Request.encode -> composite codec -> parameter
# -> DOP -> compu method -> diag coded type -> EncodeState, and back - is executed symbolically with the *values*
# (and the decoded message) symbolic.  Descriptions are enumerated (B); per description all values are covered (P).
from contracts import build as B
from odxtools.dataobjectproperty import DataObjectProperty
from odxtools.encoding import Encoding
from odxtools.exceptions import DecodeError, EncodeError, OdxError
from odxtools.minmaxlengthtype import MinMaxLengthType
from odxtools.odxtypes import DataType
from odxtools.parameters.codedconstparameter import CodedConstParameter
from odxtools.parameters.matchingrequestparameter import MatchingRequestParameter
from odxtools.parameters.physicalconstantparameter import PhysicalConstantParameter
from odxtools.parameters.reservedparameter import ReservedParameter
from odxtools.parameters.systemparameter import SystemParameter
from odxtools.parameters.valueparameter import ValueParameter
from odxtools.request import Request
from odxtools.response import Response
from odxtools.standardlengthtype import StandardLengthType
from odxtools.codec import composite_codec_get_coded_const_prefix, composite_codec_get_static_bit_length
from pyvc.api import H
from pyvc.registry import harness
from spec import wire as W


# ---------------------------------------------------------------------------------------------------- descriptions
# each entry: name -> builder returning (codec, value specs, triggering request or None)
# value spec: (parameter name, kind) with kind one of
#   ("uint", bits) ("sint", bits) ("bytes", minlen, maxlen) - a symbolic value of that physical type
#   ("sint-in-range", bits) - a signed value for which "every value of the type is accepted" is stated
def d_sid_u8():
    return B.request([B.coded_const("sid", 0x22, 0), B.value_param("v", B.dop("u8", 8), 1)]), [("v", ("uint", 8))], None


def d_lowhigh_12_4():
    d12 = B.dop("u12", dct=B.std_type(12, hl=False))
    d4 = B.dop("u4", 4)
    return B.request([B.coded_const("sid", 0x10, 0), B.value_param("a", d12, 1, 0), B.value_param("b", d4, 2, 4)]), \
        [("a", ("uint", 12)), ("b", ("uint", 4))], None


def d_bitpos_spill():
    return B.request([B.coded_const("sid", 0x22, 0), B.coded_const("hi", 0xA, 1, 4, bit_position=4),
                      B.value_param("v", B.dop("u8", 8), 1, 4)]), [("v", ("uint", 8))], None


def d_default():
    return B.request([B.coded_const("sid", 0x22, 0), B.value_param("level", B.dop("u8", 8), 1, default="5")]), \
        [("level", ("uint", 8))], None


def d_reserved_tail():
    return B.request([B.coded_const("sid", 0x22, 0), B.reserved("res", 12)]), [], None


def d_reserved_middle():
    return B.request([B.coded_const("sid", 0x22, 0), B.reserved("res", 8), B.value_param("v", B.dop("u8", 8))]), \
        [("v", ("uint", 8))], None


def d_linear_int16():
    d = B.dop("lin", dct=B.std_type(16, DataType.A_INT32), dt=DataType.A_INT32,
              compu_method=B.linear(1, 2, DataType.A_INT32, DataType.A_INT32))
    return B.request([B.coded_const("sid", 0x2E, 0), B.value_param("x", d, 1)]), [("x", ("affine", 2, 1))], None


def d_linear_float_with_display_precision():
    # physical = internal / 256 as a float; PRECISION is a display hint and must not change the decoded value
    d = B.dop("fine", dct=B.std_type(16), phys_dt=DataType.A_FLOAT64, precision=2,
              compu_method=B.linear(0, 0.00390625, DataType.A_UINT32, DataType.A_FLOAT64))
    return B.request([B.coded_const("sid", 0x2E, 0), B.value_param("x", d, 1)]), \
        [("x", ("affine", 0.00390625, 0))], None


def d_bytes_const_and_bytes_last():
    # a constant that is no integer (mismatch handling formats it) and a byte field of fixed length at the very end
    return B.request([B.coded_const("sid", 0x67, 0), B.coded_const("magic", b"\x12\x34", 1, 16, dt=DataType.A_BYTEFIELD),
                      B.value_param("key", B.dop("b32", dct=B.std_type(32, DataType.A_BYTEFIELD),
                                                 dt=DataType.A_BYTEFIELD))]), \
        [("key", ("bytes", 4, 4))], None


def d_two_nibble_constants():
    # a byte that is fully determined by two constants of four bits each: it belongs to the constant prefix
    return B.request([B.coded_const("sid", 0x22, 0), B.coded_const("hi", 0xA, 1, 4, bit_position=4),
                      B.coded_const("lo", 0xB, 1, 4, bit_position=0), B.value_param("v", B.dop("u8", 8), 2)]), \
        [("v", ("uint", 8))], None


def d_lowhigh_const_then_u8():
    # an identifier constant of 16 bits in low-high byte order between the service id and the first value
    return B.request([B.coded_const("sid", 0x22, 0), B.coded_const("did", 0xF190, 1, 16, hl=False),
                      B.value_param("v", B.dop("u8", 8))]), [("v", ("uint", 8))], None


def d_matching_request_then_const():
    return B.response([B.coded_const("sid", 0x71, 0), B.matching_request("echo_sub", 1, 1),
                       B.matching_request("echo_id", 2, 2), B.coded_const("marker", 0xAA),
                       B.value_param("status", B.dop("u8", 8))]), [("status", ("uint", 8))], "request"


def d_minmax_bytes_then_u8():
    d = B.dop("mm", dct=B.minmax_type(DataType.A_BYTEFIELD, 0, 3, "ZERO"), dt=DataType.A_BYTEFIELD)
    return B.request([B.coded_const("sid", 0x22, 0), B.value_param("blob", d), B.value_param("tail", B.dop("u8", 8))]), \
        [("blob", ("bytes", 0, 3)), ("tail", ("uint", 8))], None


def d_minmax_end_of_pdu():
    d = B.dop("mm", dct=B.minmax_type(DataType.A_BYTEFIELD, 1, 4, "END_OF_PDU"), dt=DataType.A_BYTEFIELD)
    return B.request([B.coded_const("sid", 0x22, 0), B.value_param("blob", d)]), [("blob", ("bytes", 1, 4))], None


def d_minmax_hexff_odd_offset():
    d = B.dop("mm", dct=B.minmax_type(DataType.A_BYTEFIELD, 0, 4, "HEX_FF"), dt=DataType.A_BYTEFIELD)
    return B.request([B.coded_const("sid", 0x22, 0), B.value_param("blob", d), B.coded_const("end", 0x77)]), \
        [("blob", ("bytes", 0, 4))], None


def d_phys_const():
    return B.request([B.coded_const("sid", 0x22, 0), B.phys_const("pc", B.dop("u8", 8), "17"),
                      B.value_param("v", B.dop("u8b", 8))]), [("v", ("uint", 8))], None


def d_system_params():
    return B.request([B.coded_const("sid", 0x22, 0), B.system_param("yr", B.dop("u16", 16), "YEAR"),
                      B.system_param("custom", B.dop("u8", 8), "Year")]), [("custom", ("uint", 8))], None


def d_struct_param():
    st = B.structure("st", [B.value_param("a", B.dop("u8", 8)), B.value_param("b", B.dop("u8b", 8), default="9")])
    return B.request([B.coded_const("sid", 0x22, 0), B.value_param("s", st)]), \
        [("s", ("dict", [("a", ("uint", 8)), ("b", ("uint", 8))]))], None


def d_struct_bytesize_then_u8():
    st = B.structure("st", [B.value_param("a", B.dop("u8", 8))], byte_size=3)
    return B.request([B.coded_const("sid", 0x22, 0), B.value_param("s", st), B.value_param("t", B.dop("u8b", 8))]), \
        [("s", ("dict", [("a", ("uint", 8))])), ("t", ("uint", 8))], None


def d_end_of_pdu_field():
    mm = B.dop("mm", dct=B.minmax_type(DataType.A_BYTEFIELD, 0, 2, "ZERO"), dt=DataType.A_BYTEFIELD)
    item = B.structure("item", [B.value_param("k", B.dop("u8", 8)), B.value_param("blob", mm)])
    f = B.end_of_pdu_field("items", item)
    return B.request([B.coded_const("sid", 0x22, 0), B.value_param("items", f)]), \
        [("items", ("list", ("dict", [("k", ("uint", 8)), ("blob", ("bytes", 0, 2))]), [0, 1, 2]))], None


def d_end_of_pdu_field_min_max():
    # MIN-/MAX-NUMBER-OF-ITEMS are given; odxtools encodes and decodes whatever number of items there is
    item = B.structure("item", [B.value_param("k", B.dop("u8", 8))])
    f = B.end_of_pdu_field("items", item, min_items=1, max_items=2)
    return B.request([B.coded_const("sid", 0x22, 0), B.value_param("items", f)]), \
        [("items", ("list", ("dict", [("k", ("uint", 8))]), [0, 1, 2, 3]))], None


def d_static_field():
    item = B.structure("item", [B.value_param("k", B.dop("u8", 8))])
    f = B.static_field("items", item, 2, 2)
    return B.request([B.coded_const("sid", 0x22, 0), B.value_param("items", f), B.coded_const("end", 0x55)]), \
        [("items", ("list", ("dict", [("k", ("uint", 8))]), [2]))], None


def d_leading_length_bytes():
    d = B.dop("ll", dct=B.leading_length_type(DataType.A_BYTEFIELD, 8), dt=DataType.A_BYTEFIELD)
    return B.request([B.coded_const("sid", 0x22, 0), B.value_param("blob", d), B.value_param("tail", B.dop("u8", 8))]), \
        [("blob", ("bytes", 0, 3)), ("tail", ("uint", 8))], None


def d_leading_length_text():
    d = B.dop("lt", dct=B.leading_length_type(DataType.A_UTF8STRING, 8), dt=DataType.A_UTF8STRING)
    return B.request([B.coded_const("sid", 0x22, 0), B.value_param("text", d), B.coded_const("end", 0x55)]), \
        [("text", ("str", ["", "a", "ab", "\u00e9", "\u20ac"]))], None


def d_leading_length_text_latin1():
    # an explicit BASE-TYPE-ENCODING that differs from the default of the base data type
    d = B.dop("lt1", dct=B.leading_length_type(DataType.A_UTF8STRING, 8, enc=Encoding.ISO_8859_1),
              dt=DataType.A_UTF8STRING)
    return B.request([B.coded_const("sid", 0x22, 0), B.value_param("text", d), B.coded_const("end", 0x55)]), \
        [("text", ("str", ["", "a", "\u00e9", "a\u00e9b"]))], None


def d_dynamic_length_field():
    item = B.structure("item", [B.value_param("k", B.dop("u8", 8))])
    f = B.dynamic_length_field("items", item, B.dop("count", 8), offset=1)
    return B.request([B.coded_const("sid", 0x22, 0), B.value_param("items", f), B.coded_const("end", 0x55)]), \
        [("items", ("list", ("dict", [("k", ("uint", 8))]), [0, 1, 2]))], None


def d_dtc():
    d = B.dtc_dop("dtcs", [B.dtc(0x1234, "P1234"), B.dtc(0x0001, "P0001")])
    return B.response([B.coded_const("sid", 0x59, 0), B.value_param("code", d)]), [("code", ("dependent", 16))], None


def d_dtc_linked():
    # a DTC-DOP that inherits trouble codes from a linked DTC-DOP: one is inherited, one is excluded by
    # NOT-INHERITED-DTC-SNREFS, one is hidden by a local DTC of the same name
    base = B.dtc_dop("dtcs_base", [B.dtc(0x0A00, "P0A00"), B.dtc(0x0B00, "P0B00"), B.dtc(0x9999, "P1234")])
    d = B.dtc_dop("dtcs", [B.dtc(0x1234, "P1234"), B.dtc(0x0001, "P0001")], linked=[(base, ["P0B00"])])
    return B.response([B.coded_const("sid", 0x59, 0), B.value_param("code", d)]), \
        [("code", ("pickint", [0x1234, 0x0001, 0x0A00, 0x0B00, 0x9999, 0x7777]))], None


# values a description admits (where that is a finite set the description spells out)
ADMITTED = {"dtc-linked": {"code": [0x1234, 0x0001, 0x0A00]}}


def d_multiplexer():
    sa = B.structure("sa", [B.value_param("a", B.dop("u8", 8))])
    sb = B.structure("sb", [B.value_param("b", B.dop("u16", 16))])
    m = B.mux("mx", B.dop("key", 8), [("c1", 1, 1, sa), ("c2", 2, 5, sb), ("c3", 9, 9, None)])
    return B.request([B.coded_const("sid", 0x22, 0), B.value_param("m", m), B.coded_const("chk", 0x77, 4)]), \
        [("m", ("oneof", [("tuple", "c1", ("dict", [("a", ("uint", 8))])),
                          ("tuple", "c2", ("dict", [("b", ("uint", 16))])),
                          ("tuple", "c3", ("dict", []))]))], None


def d_multiplexer_open_limits():
    # a case with an OPEN upper limit next to a default case: whichever reading of the limit the library takes, the
    # encoder and the decoder must take the same one
    low = B.structure("low", [B.value_param("a", B.dop("u8", 8))])
    other = B.structure("other", [B.value_param("d", B.dop("u16", 16))])
    m = B.mux("mx", B.dop("key", 8), [("low", 1, 5, low, "CLOSED", "OPEN")], default=("other", other))
    alternatives = []
    for key in (1, 4, 5, 6):
        alternatives.append(("muxkey", key, ("dict", [("a", ("uint", 8))])))
        alternatives.append(("muxkey", key, ("dict", [("d", ("uint", 16))])))
    alternatives.append(("tuple", "low", ("dict", [("a", ("uint", 8))])))
    return B.request([B.coded_const("sid", 0x22, 0), B.value_param("m", m), B.coded_const("end", 0x77, 4)]), \
        [("m", ("oneof", alternatives))], None


def _the_table():
    sa = B.structure("sa", [B.value_param("a", B.dop("u8", 8))])
    return B.table("tbl", B.dop("key", 8), [("row_a", 1, sa, None), ("row_b", 2, None, B.dop("u16", 16))])


def d_table_key_struct():
    t = _the_table()
    k = B.table_key("tk", t)
    return B.request([B.coded_const("sid", 0x22, 0), k, B.table_struct("ts", k)]), \
        [("ts", ("oneof", [("tuple", "row_a", ("dict", [("a", ("uint", 8))])), ("tuple", "row_b", ("uint", 16))]))], None


def d_table_key_given_and_struct():
    # the key may be given next to the TABLE-STRUCT value (it then has to name the same row); two rows whose contents
    # have the same shape, so that a value meant for one row would also fit the other
    sa = B.structure("sa", [B.value_param("a", B.dop("u8", 8))])
    sc = B.structure("sc", [B.value_param("a", B.dop("u16", 16))])
    t = B.table("tbl", B.dop("key", 8), [("row_a", 1, sa, None), ("row_c", 3, sc, None)])
    k = B.table_key("tk", t)
    return B.request([B.coded_const("sid", 0x22, 0), k, B.table_struct("ts", k)]), \
        [("tk", ("str", ["row_a", "row_c"])),
         ("ts", ("oneof", [("tuple", "row_a", ("dict", [("a", ("uint", 8))])),
                           ("tuple", "row_c", ("dict", [("a", ("uint", 16))]))]))], None


def d_nrc_const_wider_than_its_value():
    # a negative response whose NRC-CONST (16 bit) reaches beyond the value parameter (8 bit) it overlaps with: the
    # byte behind the value belongs to the message although no value is written there
    return B.response([B.coded_const("sid", 0x7F, 0), B.coded_const("rq_sid", 0x22, 1),
                       B.nrc_const("nrc", [0x2100, 0x7800], 2, 16), B.value_param("code", B.dop("u8c", 8), 2)],
                      "nr_wide", "NEGATIVE"), [("code", ("pickint", [0x21, 0x78]))], None


def d_table_fixed_row():
    t = _the_table()
    k = B.table_key("tk", t, fixed_row=[r for r in t.table_rows_raw if r.short_name == "row_b"][0])
    return B.request([B.coded_const("sid", 0x22, 0), k, B.table_struct("ts", k)]), \
        [("ts", ("oneof", [("tuple", "row_b", ("uint", 16))]))], None


def d_length_key_uint():
    k = B.length_key("len", B.dop("u8", 8), 1)
    d = B.dop("pl", dct=B.param_length_type(k))
    return B.request([B.coded_const("sid", 0x22, 0), k, B.value_param("v", d), B.coded_const("end", 0x55)]), \
        [("len", ("dependent", 8)), ("v", ("dependent", 32))], None


def d_length_key_sint():
    # the length key of a signed value: not required, so a length that holds the value - sign bit included - is implied
    # (7 bit key: lengths up to 127 bits keep the shifts of the range check within what the engine encodes)
    k = B.length_key("len", B.dop("u7", 7), 1)
    d = B.dop("pls", dct=B.param_length_type(k, DataType.A_INT32), dt=DataType.A_INT32)
    return B.request([B.coded_const("sid", 0x22, 0), k, B.value_param("v", d), B.coded_const("end", 0x55)]), \
        [("len", ("dependent", 7, (-8, 135))), ("v", ("sint-in-range", 32))], None


def d_length_key_bytes():
    k = B.length_key("len", B.dop("u8", 8), 1)
    d = B.dop("plb", dct=B.param_length_type(k, DataType.A_BYTEFIELD), dt=DataType.A_BYTEFIELD)
    return B.request([B.coded_const("sid", 0x22, 0), k, B.value_param("blob", d), B.coded_const("end", 0x55)]), \
        [("len", ("dependent", 8)), ("blob", ("bytes", 0, 3))], None


def d_struct_bytesize_then_minmax():
    st = B.structure("st", [B.value_param("a", B.dop("u8", 8))], byte_size=3)
    d = B.dop("mm0", dct=B.minmax_type(DataType.A_BYTEFIELD, 0, 3, "END_OF_PDU"), dt=DataType.A_BYTEFIELD)
    return B.request([B.coded_const("sid", 0x22, 0), B.value_param("s", st), B.value_param("blob", d)]), \
        [("s", ("dict", [("a", ("uint", 8))])), ("blob", ("bytes", 0, 3))], None


def d_reserved_bitpos_spill():
    return B.request([B.coded_const("sid", 0x22, 0), B.reserved("res", 8, 1, 4), B.value_param("v", B.dop("u8", 8))]), \
        [("v", ("uint", 8))], None


def d_leading_length_le16():
    d = B.dop("ll16", dct=B.leading_length_type(DataType.A_BYTEFIELD, 16, hl=False), dt=DataType.A_BYTEFIELD)
    return B.request([B.coded_const("sid", 0x22, 0), B.value_param("blob", d), B.value_param("tail", B.dop("u8", 8))]), \
        [("blob", ("bytes", 0, 3)), ("tail", ("uint", 8))], None


def d_leading_length_last():
    d = B.dop("ll", dct=B.leading_length_type(DataType.A_BYTEFIELD, 8), dt=DataType.A_BYTEFIELD)
    return B.request([B.coded_const("sid", 0x29, 0), B.value_param("blob", d)]), [("blob", ("bytes", 0, 3))], None


def d_static_field_dynamic_item():
    ll = B.dop("ll", dct=B.leading_length_type(DataType.A_BYTEFIELD, 8), dt=DataType.A_BYTEFIELD)
    item = B.structure("item", [B.value_param("blob", ll)])
    f = B.static_field("items", item, 2, 3)
    return B.request([B.coded_const("sid", 0x2E, 0), B.value_param("items", f), B.coded_const("end", 0x55)]), \
        [("items", ("list", ("dict", [("blob", ("bytes", 0, 2))]), [2]))], None


def d_struct_bytesize_out_of_order():
    st = B.structure("st", [B.value_param("a", B.dop("u8", 8))], byte_size=3)
    return B.request([B.coded_const("sid", 0x22, 0), B.value_param("late", B.dop("u8l", 8), 5),
                      B.value_param("s", st, 1), B.value_param("t", B.dop("u8b", 8))]), \
        [("late", ("uint", 8)), ("s", ("dict", [("a", ("uint", 8))])), ("t", ("uint", 8))], None


def d_dynamic_endmarker_field():
    item = B.structure("item", [B.value_param("k", B.dop("u8", 8))])
    f = B.dynamic_endmarker_field("items", item, B.dop("endm", 8), "255")
    return B.request([B.coded_const("sid", 0x22, 0), B.value_param("items", f), B.coded_const("end", 0xFF)]), \
        [("items", ("list", ("dict", [("k", ("dependent", 8))]), [0, 1, 2]))], None


def d_dynamic_endmarker_field_last():
    item = B.structure("item", [B.value_param("k", B.dop("u8", 8))])
    f = B.dynamic_endmarker_field("items", item, B.dop("endm16", 16), "0")
    return B.request([B.coded_const("sid", 0x22, 0), B.value_param("items", f)]), \
        [("items", ("list", ("dict", [("k", ("dependent", 8))]), [0, 1, 2, 3]))], None


def _edd():
    common = B.env_data("common", [B.value_param("c", B.dop("u8c", 8))], all_value=True)
    hot = B.env_data("hot", [B.value_param("t", B.dop("u8t", 8))], dtc_values=[1])
    rev = B.env_data("rev", [B.value_param("r", B.dop("u16r", 16))], dtc_values=[2])
    return B.env_data_desc("edd", "dtc", [common, hot, rev])


_ENV_RECORD = ("oneof", [
    ("dict", [("dtc", ("const", 1)), ("env", ("dict", [("c", ("uint", 8)), ("t", ("uint", 8))]))]),
    ("dict", [("dtc", ("const", 2)), ("env", ("dict", [("c", ("uint", 8)), ("r", ("uint", 16))]))]),
    ("dict", [("dtc", ("const", 3)), ("env", ("dict", [("c", ("uint", 8))]))]),
])


def d_env_data_field():
    item = B.structure("item", [B.value_param("dtc", B.dop("u8d", 8)), B.value_param("env", _edd())])
    f = B.end_of_pdu_field("records", item)
    return B.response([B.coded_const("sid", 0x59, 0), B.value_param("records", f)]), \
        [("records", ("list", _ENV_RECORD, [0, 1, 2]))], None


def d_env_data_then_struct():
    rec = B.structure("rec", [B.value_param("dtc", B.dop("u8d", 8)), B.value_param("env", _edd())])
    st = B.structure("st", [B.value_param("a", B.dop("u8a", 8))])
    return B.response([B.coded_const("sid", 0x59, 0), B.value_param("rec", rec), B.value_param("s", st)]), \
        [("rec", _ENV_RECORD), ("s", ("dict+unknown", [("a", ("uint", 8))]))], None


def d_length_key_bit_position():
    # a length key that does not start at bit 0 and therefore spills into a second byte
    k = B.length_key("len", B.dop("u8", 8), 1, 4)
    d = B.dop("plb", dct=B.param_length_type(k, DataType.A_BYTEFIELD), dt=DataType.A_BYTEFIELD)
    return B.request([B.coded_const("sid", 0x22, 0), k, B.value_param("blob", d), B.coded_const("end", 0x55)]), \
        [("blob", ("bytes", 0, 2))], None


def d_dynamic_length_field_of_strings_last():
    # a field at the very end of the PDU whose items end with a terminated object: only the last item is "at the end"
    mm = B.dop("mmz", dct=B.minmax_type(DataType.A_BYTEFIELD, 0, 3, "ZERO"), dt=DataType.A_BYTEFIELD)
    item = B.structure("item", [B.value_param("blob", mm)])
    f = B.dynamic_length_field("items", item, B.dop("count", 8), offset=1)
    return B.request([B.coded_const("sid", 0x22, 0), B.value_param("items", f)]), \
        [("items", ("list", ("dict", [("blob", ("bytes", 1, 2))]), [1, 2]))], None


def d_linear_with_default_value():
    # values outside the limits of the compu method decode to the COMPU-DEFAULT-VALUE
    d = B.dop("limd", dct=B.std_type(8), compu_method=B.linear(10, 2, DataType.A_UINT32, DataType.A_UINT32, 0, 100,
                                                                default="9999"))
    return B.request([B.coded_const("sid", 0x2E, 0), B.value_param("x", d, 1)]), [("x", ("affine", 2, 10))], None


def d_linear_signed_with_limit_zero():
    # a limit that is exactly 0 on a type that can go below it
    d = B.dop("lim0", dct=B.std_type(8, DataType.A_INT32), dt=DataType.A_INT32,
              compu_method=B.linear(-40, 1, DataType.A_INT32, DataType.A_INT32, 0, 100))
    return B.request([B.coded_const("sid", 0x2E, 0), B.value_param("t", d, 1)]), [("t", ("dependent", 8))], None


def d_struct_bytesize_params_out_of_order():
    # a BYTE-SIZE structure whose parameters are not listed in the order of their byte positions
    st = B.structure("st", [B.value_param("status", B.dop("u8s", 8), 2), B.value_param("ident", B.dop("u8i", 8), 0)],
                     byte_size=4)
    return B.request([B.coded_const("sid", 0x2E, 0), B.value_param("s", st), B.coded_const("end", 0x7F)]), \
        [("s", ("dict", [("status", ("uint", 8)), ("ident", ("uint", 8))]))], None


def d_static_field_of_strings_last():
    # items that end with a HEX-FF terminated object, the field being the last parameter of the PDU
    mm = B.dop("mmf", dct=B.minmax_type(DataType.A_BYTEFIELD, 0, 3, "HEX_FF"), dt=DataType.A_BYTEFIELD)
    item = B.structure("item", [B.value_param("k", B.dop("u8", 8)), B.value_param("blob", mm)])
    f = B.static_field("items", item, 2, 5)
    return B.request([B.coded_const("sid", 0x2E, 0), B.value_param("items", f)]), \
        [("items", ("list", ("dict", [("k", ("uint", 8)), ("blob", ("bytes", 0, 2))]), [2]))], None


def d_dynamic_length_field_last():
    item = B.structure("item", [B.value_param("k", B.dop("u8", 8))])
    f = B.dynamic_length_field("items", item, B.dop("count", 8), offset=1)
    return B.request([B.coded_const("sid", 0x12, 0), B.value_param("items", f)]), \
        [("items", ("list", ("dict", [("k", ("uint", 8))]), [0, 1, 2]))], None


def d_linear_limited():
    d = B.dop("lim", dct=B.std_type(8), compu_method=B.linear(0, 1, DataType.A_UINT32, DataType.A_UINT32, 0, 100))
    return B.request([B.coded_const("sid", 0x2E, 0), B.value_param("pct", d, 1)]), [("pct", ("dependent", 8))], None


def d_minmax_unicode_odd_offset():
    d = B.dop("ustr", dct=B.minmax_type(DataType.A_UNICODE2STRING, 0, 8, "ZERO"), dt=DataType.A_UNICODE2STRING)
    return B.request([B.coded_const("sid", 0x22, 0), B.value_param("text", d), B.coded_const("end", 0xAB)]), \
        [("text", ("str", ["", "a", "ab", "\u0100", "a\u0100", "\u0100a", "\u6100", "\u0100\u0000", "a\u0000"]))], None


def d_minmax_unicode_le():
    d = B.dop("ustr", dct=B.minmax_type(DataType.A_UNICODE2STRING, 0, 8, "HEX_FF", hl=False),
              dt=DataType.A_UNICODE2STRING)
    return B.request([B.coded_const("sid", 0x22, 0), B.coded_const("sub", 0x01), B.value_param("text", d),
                      B.coded_const("end", 0xAB)]), \
        [("text", ("str", ["", "a", "\u00ff", "a\u00ff", "\uff00", "\u0100", "\uff01\uffff", "a\uffff"]))], None


DESCRIPTIONS = {
    "sid+u8": d_sid_u8, "lowhigh-12+4": d_lowhigh_12_4, "bitpos-spill": d_bitpos_spill, "default": d_default,
    "reserved-tail": d_reserved_tail, "reserved-middle": d_reserved_middle, "linear-int16": d_linear_int16,
    "matching-request+const": d_matching_request_then_const, "minmax-zero+u8": d_minmax_bytes_then_u8,
    "minmax-end-of-pdu": d_minmax_end_of_pdu, "minmax-hexff+const": d_minmax_hexff_odd_offset,
    "phys-const": d_phys_const, "system-params": d_system_params, "linear-limited-u8": d_linear_limited,
    "minmax-unicode2-be": d_minmax_unicode_odd_offset, "minmax-unicode2-le": d_minmax_unicode_le,
    "struct-param": d_struct_param, "struct-bytesize+u8": d_struct_bytesize_then_u8,
    "end-of-pdu-field": d_end_of_pdu_field, "static-field": d_static_field,
    "leading-length-bytes": d_leading_length_bytes, "leading-length-text": d_leading_length_text,
    "dynamic-length-field": d_dynamic_length_field, "dtc": d_dtc, "multiplexer": d_multiplexer,
    "table-key+struct": d_table_key_struct, "table-fixed-row": d_table_fixed_row,
    "length-key-uint": d_length_key_uint, "length-key-bytes": d_length_key_bytes, "length-key-sint": d_length_key_sint,
    "struct-bytesize+minmax0": d_struct_bytesize_then_minmax, "reserved-bitpos-spill": d_reserved_bitpos_spill,
    "leading-length-le16": d_leading_length_le16, "leading-length-last": d_leading_length_last,
    "static-field-dynamic-item": d_static_field_dynamic_item,
    "struct-bytesize-out-of-order": d_struct_bytesize_out_of_order,
    "dynamic-endmarker-field": d_dynamic_endmarker_field,
    "dynamic-endmarker-field-last": d_dynamic_endmarker_field_last,
    "env-data-field": d_env_data_field, "env-data+struct": d_env_data_then_struct,
    "multiplexer-open-limits": d_multiplexer_open_limits,
    "linear-float-precision": d_linear_float_with_display_precision,
    "bytes-const+bytes-last": d_bytes_const_and_bytes_last,
    "leading-length-text-latin1": d_leading_length_text_latin1,
    "length-key-bit-position": d_length_key_bit_position,
    "dynamic-length-field-of-strings-last": d_dynamic_length_field_of_strings_last,
    "linear-with-default-value": d_linear_with_default_value,
    "linear-signed-limit-zero": d_linear_signed_with_limit_zero,
    "two-nibble-constants": d_two_nibble_constants,
    "struct-bytesize-params-out-of-order": d_struct_bytesize_params_out_of_order,
    "static-field-of-strings-last": d_static_field_of_strings_last,
    "dynamic-length-field-last": d_dynamic_length_field_last,
    "lowhigh-const+u8": d_lowhigh_const_then_u8, "end-of-pdu-field-min-max": d_end_of_pdu_field_min_max,
    "table-key-given+struct": d_table_key_given_and_struct, "dtc-linked": d_dtc_linked,
    "nrc-const-wider-than-value": d_nrc_const_wider_than_its_value,
}

# descriptions in which every bit of the PDU is determined by the decoded values: no reserved bits, no padding behind
# BYTE-SIZE / ITEM-BYTE-SIZE, no bits between objects (length keys that are no multiple of 8), no key ranges (the
# multiplexer re-encodes the lower limit of the case); strings are left out because the abstract codec (A-codec) makes
# the comparison undecidable for the solvers, linear-int16 because the 16 bit two's complement comparison stays unknown
DECODE_SKIP = {"dynamic-length-field-of-strings-last"}
BYTES_DETERMINED = {"sid+u8", "dtc-linked", "lowhigh-12+4", "lowhigh-const+u8", "end-of-pdu-field-min-max", "default", "phys-const", "linear-limited-u8",
                    "minmax-zero+u8", "minmax-end-of-pdu", "minmax-hexff+const", "struct-param", "end-of-pdu-field",
                    "leading-length-bytes", "leading-length-le16", "leading-length-last", "dynamic-length-field",
                    "dtc", "table-key+struct", "length-key-bytes",
                    "dynamic-endmarker-field", "dynamic-endmarker-field-last", "dynamic-length-field-last"}

FUNCTIONS = [Request.encode, Request.decode, Response.encode, Response.decode,
             composite_codec_get_coded_const_prefix, composite_codec_get_static_bit_length,
             ValueParameter._encode_positioned_into_pdu, CodedConstParameter._encode_positioned_into_pdu,
             CodedConstParameter._decode_positioned_from_pdu, ReservedParameter._encode_positioned_into_pdu,
             ReservedParameter._decode_positioned_from_pdu, MatchingRequestParameter._encode_positioned_into_pdu,
             MatchingRequestParameter._decode_positioned_from_pdu,
             PhysicalConstantParameter._encode_positioned_into_pdu, SystemParameter._encode_positioned_into_pdu,
             SystemParameter.is_required, ValueParameter.is_required, DataObjectProperty.encode_into_pdu,
             DataObjectProperty.decode_from_pdu, StandardLengthType.encode_into_pdu,
             StandardLengthType.decode_from_pdu, MinMaxLengthType.encode_into_pdu, MinMaxLengthType.decode_from_pdu]


def _same(got, want):
    if isinstance(want, tuple) and len(want) == 2 and isinstance(want[0], int):
        # a multiplexer case selected by the numerical key decodes to (case name, content)
        return H.And(isinstance(got, tuple), len(got) == 2, H.eq(got[1], want[1]))
    return H.eq(got, want)


def _value(name, kind):
    if kind[0] == "uint":
        return H.int(f"val_{name}")
    if kind[0] == "sint":
        return H.int(f"val_{name}")
    if kind[0] == "sint-in-range":
        # (values beyond 100 bits are left out: the range check of the encoder shifts by the implied length, and the
        # engine encodes shifts up to 136 bits)
        return H.int(f"val_{name}", -(1 << 100), 1 << 100)
    if kind[0] == "dependent" and len(kind) > 2:
        return H.int(f"val_{name}", kind[2][0], kind[2][1])
    if kind[0] == "dependent":
        return H.int(f"val_{name}")  # an integer whose admissibility depends on other values (length keys)
    if kind[0] == "affine":
        # physical->internal conversions round to the nearest internal value (C07): only physical values in the image
        # of the compu method (factor * k + offset) are represented exactly, so these are the values to round-trip
        return kind[1] * H.int(f"val_{name}") + kind[2]
    if kind[0] == "bytes":
        return H.bytes(f"val_{name}", 0 if kind[1] < 100 else kind[1], kind[2] + 2)
    if kind[0] == "str":
        return H.pick(f"val_{name}", kind[1])
    if kind[0] == "const":
        return kind[1]
    if kind[0] == "pickint":
        return H.pick(f"val_{name}", kind[1])
    if kind[0] == "dict":
        return {n: _value(f"{name}_{n}", k) for (n, k) in kind[1]}
    if kind[0] == "dict+unknown":
        d = {n: _value(f"{name}_{n}", k) for (n, k) in kind[1]}
        if H.bool(f"{name}_has_a_value_for_an_unknown_parameter"):
            d["bogus"] = 1
        return d
    if kind[0] == "oneof":
        return _value(name, H.pick(f"alt_{name}", kind[1]))
    if kind[0] == "tuple":
        return (kind[1], _value(f"{name}_{kind[1]}", kind[2]))
    if kind[0] == "muxkey":
        # a multiplexer case selected by the numerical value of the switch key
        return (kind[1], _value(f"{name}_{kind[1]}", kind[2]))
    if kind[0] == "list":
        count = H.pick(f"n_{name}", kind[2])
        return [_value(f"{name}{i}", kind[1]) for i in range(count)]
    raise ValueError(kind)


def _acceptable(kind, value):
    """is the value inside the range of its physical type?  None: not stated here (the admissible set depends on the
    description in a way this helper does not spell out)"""
    if kind[0] == "uint":
        return H.And(value >= 0, value < (1 << kind[1]))
    if kind[0] == "sint-in-range":
        return H.And(value >= -(1 << (kind[1] - 1)), value < (1 << (kind[1] - 1)))
    if kind[0] == "dict":
        parts = [_acceptable(k, value[n]) for (n, k) in kind[1]]
        if any([q is None for q in parts]):
            return None
        return H.And(parts)
    return None


def _wire(desc, values, pdu):
    """the PDU as ISO 22901-1 prescribes it for the description, written down independently of odxtools: a byte string the PDU must
    equal, or a condition on the PDU (None: not spelled out for this description).  Encoder and decoder erring in the same way round-trip but miss this image."""
    v = values
    if desc == "sid+u8":
        return bytes([0x22, v["v"]])
    if desc == "default":
        return bytes([0x22, v["level"] if "level" in v else 5])
    if desc == "end-of-pdu-field-min-max":
        return bytes([0x22] + [it["k"] for it in v["items"]])
    if desc == "table-key-given+struct" and "ts" in v:
        row, content = v["ts"]
        if row == "row_a":
            return bytes([0x22, 1, content["a"]])
        return H.And(len(pdu) == 4, pdu[0] == 0x22, pdu[1] == 3, 256 * pdu[2] + pdu[3] == content["a"])
    if desc == "nrc-const-wider-than-value":
        return bytes([0x7F, 0x22, v["code"], 0])
    if desc == "dtc-linked":
        return bytes([0x59, v["code"] // 256, v["code"] % 256])
    if desc == "lowhigh-const+u8":
        return bytes([0x22, 0x90, 0xF1, v["v"]])
    if desc == "lowhigh-12+4":
        # 12 bit little endian value in the low bits of the byte pair, 4 bit value in the high nibble of the second byte
        return H.And(len(pdu) == 3, pdu[0] == 0x10, pdu[1] + 256 * pdu[2] == v["a"] + 4096 * v["b"])
    if desc == "reserved-bitpos-spill":
        return bytes([0x22, 0, 0, v["v"]])
    if desc == "struct-bytesize-params-out-of-order":
        return bytes([0x2E, v["s"]["ident"], 0, v["s"]["status"], 0, 0x7F])
    if desc == "dynamic-length-field-last":
        return bytes([0x12, len(v["items"])] + [it["k"] for it in v["items"]])
    if desc == "multiplexer":
        case, content = v["m"]
        if case == "c1":
            return bytes([0x22, 1, content["a"], 0, 0x77])
        if case == "c2":
            return bytes([0x22, 2, content["b"] // 256, content["b"] % 256, 0x77])
        return bytes([0x22, 9, 0, 0, 0x77])
    if desc == "two-nibble-constants":
        return bytes([0x22, 0xAB, v["v"]])
    if desc == "reserved-middle":
        return bytes([0x22, 0, v["v"]])
    if desc == "phys-const":
        return bytes([0x22, 17, v["v"]])
    if desc == "linear-int16":
        k = (v["x"] - 1) // 2  # internal value, 16 bit two's complement, big endian
        return H.And(len(pdu) == 3, pdu[0] == 0x2E, 256 * pdu[1] + pdu[2] == H.ite(k >= 0, k, k + 65536))
    if desc == "leading-length-bytes":
        return bytes([0x22, len(v["blob"])]) + bytes(v["blob"]) + bytes([v["tail"]])
    if desc == "leading-length-le16":
        return bytes([0x22, len(v["blob"]), 0]) + bytes(v["blob"]) + bytes([v["tail"]])
    if desc == "leading-length-text-latin1":
        return bytes([0x22, len(v["text"])]) + v["text"].encode("iso-8859-1") + bytes([0x55])
    if desc == "length-key-bit-position":
        n = 8 * len(v["blob"])
        # the two bytes read as one big-endian number hold the key shifted left by its bit position
        return bytes([0x22, n // 16, (n % 16) * 16]) + bytes(v["blob"]) + bytes([0x55])
    if desc == "leading-length-last":
        return bytes([0x29, len(v["blob"])]) + bytes(v["blob"])
    if desc == "length-key-bytes" and "len" not in v:
        return bytes([0x22, 8 * len(v["blob"])]) + bytes(v["blob"]) + bytes([0x55])
    if desc == "struct-param":
        return bytes([0x22, v["s"]["a"], v["s"]["b"]])
    if desc == "struct-bytesize+u8":
        return bytes([0x22, v["s"]["a"], 0, 0, v["t"]])
    if desc == "struct-bytesize-out-of-order":
        return bytes([0x22, v["s"]["a"], 0, 0, v["t"], v["late"]])
    if desc == "static-field":
        return bytes([0x22, v["items"][0]["k"], 0, v["items"][1]["k"], 0, 0x55])
    if desc == "dynamic-length-field":
        return bytes([0x22, len(v["items"])] + [it["k"] for it in v["items"]] + [0x55])
    if desc == "dynamic-endmarker-field":
        return bytes([0x22] + [it["k"] for it in v["items"]] + [0xFF])
    if desc == "matching-request+const":
        return None
    return None


def _fam(tier, seed):
    return [{"desc": k} for k in DESCRIPTIONS]


@harness(props=["C01", "C02", "C03", "C04", "C05", "C08"], strength="B", family=_fam,
         bound="57 concrete request/response descriptions built from the real parameter / DOP / diag-coded-type classes "
         "(constants, defaults, reserved bits, low-high and non-aligned values, linear compu method, request echoes, "
         "MIN-MAX-LENGTH types with the three terminations, PHYS-CONST, SYSTEM, structures with and without BYTE-SIZE, end-of-PDU, static and dynamic-length fields, LEADING-LENGTH types, DTC DOP, multiplexer, table key/struct, PARAM-LENGTH-INFO types with their length key); per description every value is "
         "symbolic",
         functions=FUNCTIONS, covers=["encoded", "rejected"], assumes=["A-bitstruct", "A-lib"],
         limits={"max_paths": 40000, "task_timeout": 1500, "sym_for_unroll": 12}, use_contracts=["bcd"])
def roundtrip_through_the_real_stack(desc):
    """real encode then real decode of a concrete description with symbolic values: decoded values = encoded values
    (defaults and constants included), whole PDU consumed, constant prefix is a prefix of the PDU, static bit length
    = size of the PDU, omitted required parameters are rejected, only odxtools errors escape"""
    codec, specs, trigger = DESCRIPTIONS[desc]()
    values = {}
    omitted = []
    for (name, kind) in specs:
        if H.bool(f"give_{name}"):
            values[name] = _value(name, kind)
        else:
            omitted.append(name)
    request_bytes = H.bytes("triggering_request", 0, 5) if trigger else None
    const_given_as = "omitted"
    if desc in ("sid+u8", "lowhigh-12+4"):
        # a value may be given for a constant: it has to be the constant (and of its type)
        const_given_as = H.pick("sid_given_as", ["omitted", "the constant", "another int", "a float that truncates to it",
                                                 "a text that parses to it"])
        c = codec.parameters[0].coded_value
        if const_given_as != "omitted":
            values["sid"] = {"the constant": c, "another int": c + 1, "a float that truncates to it": c + 0.5,
                             "a text that parses to it": str(c)}[const_given_as]
    if desc == "phys-const":
        const_given_as = H.pick("pc_given_as", ["omitted", "the constant", "another int", "zero"])
        if const_given_as != "omitted":
            values["pc"] = {"the constant": 17, "another int": 18, "zero": 0}[const_given_as]
    required = [p.short_name for p in codec.required_parameters]
    free = [p.short_name for p in codec.free_parameters]
    try:
        if trigger:
            pdu = codec.encode(coded_request=request_bytes, **values)
        else:
            pdu = codec.encode(**values)
    except OdxError:
        H.cover("rejected")
        H.check("C04:rejections-are-odxtools-errors-never-foreign-exceptions", True)
        for (name, admitted) in ADMITTED.get(desc, {}).items():
            if name in values and not omitted:
                H.check("C01,C08:values-the-description-admits-are-accepted", values[name] not in admitted)
        # the converse of "required": with every required parameter given and every given value inside the range of
        # its type, nothing justifies a rejection (only stated for descriptions whose value ranges are plain)
        ok = [_acceptable(kind, values[name]) for (name, kind) in specs if name in values]
        if not trigger and all([q is not None for q in ok]):
            H.check("C08:only-required-parameters-are-needed-for-encoding",
                    H.Or(H.Not(H.And(ok)), any([n in required for n in omitted]),
                         const_given_as not in ("omitted", "the constant")))
        return
    except Exception:
        H.check("C04:rejections-are-odxtools-errors-never-foreign-exceptions", False)
        return
    H.cover("encoded")
    H.check("C04:rejections-are-odxtools-errors-never-foreign-exceptions", True)
    for (name, admitted) in ADMITTED.get(desc, {}).items():
        if name in values:
            H.check("C04:values-the-description-does-not-admit-are-rejected", values[name] in admitted)
    H.check("C04:a-value-given-for-a-constant-is-the-constant", const_given_as in ("omitted", "the constant"))
    H.check("C04:values-for-unknown-parameters-are-rejected",
            not any(["bogus" in v for v in values.values() if isinstance(v, dict)]))
    H.check("C08:omitting-a-required-parameter-makes-encoding-fail", all([n not in required for n in omitted]))
    H.check("C08:required-parameters-are-settable", all([n in free for n in required]))
    prefix = codec.coded_const_prefix(request_bytes) if trigger else codec.coded_const_prefix()
    H.check("C08:constant-prefix-is-a-prefix-of-the-pdu",
            H.And(len(pdu) >= len(prefix), H.eq(bytes(pdu)[:len(prefix)], bytes(prefix))))
    if trigger:
        # ... also when only the beginning of the request is known (the attribution machinery asks with prefixes)
        for j in range(4):
            if j < len(request_bytes):
                part = codec.coded_const_prefix(bytes(request_bytes)[:j])
                H.check("C08:constant-prefix-is-a-prefix-of-the-pdu",
                        H.And(len(pdu) >= len(part), H.eq(bytes(pdu)[:len(part)], bytes(part))))
    static = codec.get_static_bit_length()
    if static is not None:
        H.check("C08:static-bit-length-is-the-size-of-the-pdu", 8 * len(pdu) == static, independent=True)
    image = _wire(desc, values, pdu)
    if isinstance(image, bytes):
        image = H.eq(bytes(pdu), image)
    if image is not None:
        H.check("C02,C08:pdu-is-the-wire-image-the-description-prescribes", image, independent=True)
    try:
        back = codec.decode(bytes(pdu))
    except OdxError:
        H.check("C01,C02,C04:what-the-encoder-accepts-decodes", False)
        return
    except Exception:
        H.check("C05:only-decode-errors-escape-the-decoder", False)
        return
    for (name, kind) in specs:
        if name in values:
            got = back[name]
            if desc in ("dtc", "dtc-linked"):
                got = got.trouble_code  # DTCs decode to the DTC object carrying the trouble code
            H.check("C01,C02,C04:decoded-value-is-the-encoded-value", _same(got, values[name]), independent=True)
    for p in codec.parameters:
        if isinstance(p, CodedConstParameter):
            H.check("C01:constants-decode-to-their-value", back[p.short_name] == p.coded_value)
        elif isinstance(p, ValueParameter) and p.short_name in omitted:
            H.check("C01:omitted-parameters-decode-to-their-default",
                    back[p.short_name] == p.physical_default_value)
        elif isinstance(p, ReservedParameter):
            H.check("C02:reserved-bits-are-zero", back[p.short_name] == 0)
        elif isinstance(p, PhysicalConstantParameter):
            H.check("C01:constants-decode-to-their-value", back[p.short_name] == p.physical_constant_value)
    # C03: re-encoding what was decoded reproduces the PDU (settable parameters only)
    again_values = {n: back[n] for n in free if n in back}
    try:
        if trigger:
            pdu2 = codec.encode(coded_request=request_bytes, **again_values)
        else:
            pdu2 = codec.encode(**again_values)
    except OdxError:
        H.check("C03:decoded-values-can-be-re-encoded", desc == "system-params")
        return
    # (a multiplexer case selected by a key other than the lower limit of its case is no canonical form: the decoded
    # value names the case, re-encoding emits the lower limit)
    by_key = [v for v in values.values() if isinstance(v, tuple) and len(v) == 2 and isinstance(v[0], int)]
    if desc != "system-params" and all([v[0] == 1 for v in by_key]):
        H.check("C03:re-encoding-the-decoded-values-reproduces-the-pdu", H.eq(bytes(pdu2), bytes(pdu)))


def d_condensed_nibble_const():
    # a constant with a condensed bit mask (0xF0: four bits on the wire) that shares its byte with a value: the byte is
    # not determined by constants.  Only the prefix is stated for this description - the wire image of condensed masks
    # is an open finding (known_findings.json)
    sub = CodedConstParameter(oid=None, short_name="sub", long_name=None, description=None, semantic=None,
                              diag_coded_type=B.std_type(4, mask=0xF0, condensed=True), coded_value=0xA,
                              byte_position=1, bit_position=0, sdgs=[])
    return B.request([B.coded_const("sid", 0x22, 0), sub, B.value_param("mode", B.dop("u4", 4), 1, 4)]), \
        [("mode", ("uint", 4))], None


PREFIX_ONLY = {"condensed-nibble-const": d_condensed_nibble_const}
PREFIX_DESCRIPTIONS = ["sid+u8", "bitpos-spill", "lowhigh-12+4", "phys-const", "matching-request+const", "multiplexer",
                       "two-nibble-constants", "condensed-nibble-const", "lowhigh-const+u8"]
# number of leading bytes that are fully determined by constants (for responses: given the whole triggering request)
CONSTANT_BYTES = {"sid+u8": 1, "bitpos-spill": 1, "lowhigh-12+4": 1, "phys-const": 2, "matching-request+const": 5,
                  "multiplexer": 1, "two-nibble-constants": 2, "condensed-nibble-const": 1, "lowhigh-const+u8": 3}


@harness(props=["C06", "C08"], strength="B", family=lambda t, s: [{"desc": k} for k in PREFIX_DESCRIPTIONS],
         bound="eight of the concrete descriptions (constants sharing a byte with values, request echoes, physical "
         "constants, a low-high constant) and a constant with a condensed bit mask sharing its byte with a value; values and the triggering request symbolic",
         functions=[composite_codec_get_coded_const_prefix, Request.coded_const_prefix, Response.coded_const_prefix],
         covers=["encoded"], assumes=["A-bitstruct"])
def constant_prefix_is_a_prefix_of_every_message(desc):
    """the constant prefix by which messages are attributed to coding objects (prefix tree of DiagLayer) is a prefix
    of every PDU the coding object encodes - also when only the beginning of the triggering request is known"""
    codec, specs, trigger = (PREFIX_ONLY[desc] if desc in PREFIX_ONLY else DESCRIPTIONS[desc])()
    values = {name: _value(name, kind) for (name, kind) in specs}
    request_bytes = H.bytes("triggering_request", 0, 5) if trigger else None
    try:
        pdu = codec.encode(coded_request=request_bytes, **values) if trigger else codec.encode(**values)
    except OdxError:
        return
    H.cover("encoded")
    parts = [codec.coded_const_prefix()]
    if trigger:
        # (the prefix is a function of the request handed in: an earlier question about another request on the same
        # object must not influence the answer)
        try:
            codec.coded_const_prefix(H.bytes("request_asked_about_before", 0, 5))
        except OdxError:
            pass
        parts = [codec.coded_const_prefix(bytes(request_bytes)[:j]) for j in range(5) if j <= len(request_bytes)]
    for part in parts:
        H.check("C06,C08:constant-prefix-is-a-prefix-of-the-pdu",
                H.And(len(pdu) >= len(part), H.eq(bytes(pdu)[:len(part)], bytes(part))))
    # ... and it is not shorter than what the constants determine: services that differ in a constant byte are told
    # apart by their prefixes
    whole = codec.coded_const_prefix(bytes(request_bytes)) if trigger else codec.coded_const_prefix()
    if not trigger or len(request_bytes) >= 4:
        H.check("C06,C08:constant-prefix-covers-every-leading-byte-the-constants-determine",
                len(whole) == CONSTANT_BYTES[desc])


@harness(props=["C05", "C03"], strength="B", family=lambda t, s: [m for m in _fam(t, s) if m["desc"] not in DECODE_SKIP],
         bound="the same concrete descriptions (but the field of terminated strings, whose symbolic item count needs a "
         "loop invariant that is not written); the message is a symbolic byte string of 0..8 bytes (0..14 for the length-key descriptions, so that keys beyond 64 bits are reachable)",
         functions=FUNCTIONS, covers=["decoded", "rejected"], assumes=["A-bitstruct", "A-lib"],
         limits={"max_paths": 40000, "task_timeout": 1500, "sym_for_unroll": 12}, use_contracts=["bcd"])
def decoding_arbitrary_bytes_is_total(desc):
    """decoding any byte string with a real description returns or raises DecodeError - nothing else escapes"""
    codec, specs, trigger = DESCRIPTIONS[desc]()
    message = H.bytes("message", 0, 14 if desc.startswith("length-key") else 8)
    static = codec.get_static_bit_length()
    try:
        decoded = codec.decode(message)
    except DecodeError:
        H.cover("rejected")
        H.check("C05:only-decode-errors-escape-the-decoder", True)
        return
    except Exception:
        H.check("C05:only-decode-errors-escape-the-decoder", False)
        return
    H.cover("decoded")
    H.check("C05:only-decode-errors-escape-the-decoder", True)
    if static is not None:
        H.check("C05:a-pdu-shorter-than-the-static-size-is-rejected", 8 * len(message) >= static)
    if desc in BYTES_DETERMINED and not trigger:
        # nothing is invented: what was decoded, encoded again, is what the message holds at that place
        free = [p.short_name for p in codec.free_parameters]
        try:
            again = codec.encode(**{n: decoded[n] for n in free if n in decoded})
        except OdxError:
            return
        # (a constant that differs from the description is reported by a warning and decoded as found: re-encoding
        # restores the described constant, so the comparison is made for messages carrying the described constants)
        consts_ok = [H.eq(decoded[p.short_name], p.coded_value) for p in codec.parameters
                     if isinstance(p, CodedConstParameter)] + \
                    [H.eq(decoded[p.short_name], p.physical_constant_value) for p in codec.parameters
                     if isinstance(p, PhysicalConstantParameter)]
        H.check("C05,C03:decoded-values-are-backed-by-the-bytes-of-the-message",
                H.implies(H.And(consts_ok), H.And(len(again) <= len(message),
                                                   H.eq(bytes(again), bytes(message)[:len(again)]))))


# ---------------------------------------------------------------------------------------------------------------
# C17: an operation that succeeds in strict mode returns the identical result in non-strict mode (2-safety: the same
# operation is executed twice, once per mode, on the same symbolic inputs)
import odxtools.exceptions as X  # noqa: E402
from odxtools.diagservice import DiagService  # noqa: E402


def _nrc_service():
    svc = DiagService.__new__(DiagService)
    svc.short_name = "svc"
    svc._request = B.request([B.coded_const("sid", 0xB0, 0), B.value_param("x", B.dop("u8", 8), 1)])
    svc._positive_responses = [B.response([B.coded_const("sid", 0xF0, 0)], "pos")]
    svc._negative_responses = [
        B.response([B.coded_const("sid", 0x7F, 0), B.coded_const("rq_sid", 0xB0, 1),
                    B.nrc_const("nrc", [0x10, 0x11, 0x12, 0x13], 2)], "nr_general", "NEGATIVE"),
        B.response([B.coded_const("sid", 0x7F, 0), B.coded_const("rq_sid", 0xB0, 1),
                    B.nrc_const("nrc", [0x31, 0x33], 2)], "nr_out_of_range", "NEGATIVE"),
    ]
    return svc


def _two_length_service():
    # two positive responses sharing their constant prefix: a long one (a byte field of at least four bytes) and a
    # short one (a single status byte); a message is told apart by the decode error of the one that does not fit
    svc = DiagService.__new__(DiagService)
    svc.short_name = "svc"
    svc._request = B.request([B.coded_const("sid", 0x22, 0), B.coded_const("did", 0x10, 1)])
    mm = B.dop("mm4", dct=B.minmax_type(DataType.A_BYTEFIELD, 4, 6, "END_OF_PDU"), dt=DataType.A_BYTEFIELD)
    svc._positive_responses = [
        B.response([B.coded_const("sid", 0x62, 0), B.coded_const("did", 0x10, 1), B.value_param("blob", mm)], "pr_long"),
        B.response([B.coded_const("sid", 0x62, 0), B.coded_const("did", 0x10, 1),
                    B.value_param("status", B.dop("u8", 8))], "pr_short"),
    ]
    svc._negative_responses = []
    return svc


@harness(props=["C17", "C06"], strength="B",
         family=lambda t, s: [{"desc": k, "phase": ph} for k in DESCRIPTIONS for ph in ("encode", "decode")
                              if not (ph == "decode" and k in DECODE_SKIP)] +
         [{"desc": "nrc-const-service", "phase": "decode"}, {"desc": "two-length-service", "phase": "decode"}],
         bound="the 57 concrete descriptions plus one service with two NRC-CONST negative responses; values and "
         "messages symbolic",
         functions=FUNCTIONS + [DiagService.decode_message], covers=["strict-success"],
         assumes=["A-bitstruct", "A-lib"], limits={"max_paths": 40000, "task_timeout": 1500, "sym_for_unroll": 12}, use_contracts=["bcd"],
         crosscheck=False)
def strict_success_implies_same_result_in_lenient_mode(desc, phase):
    """whenever encoding / decoding succeeds in strict mode, the same call in non-strict mode returns the same result"""
    if desc in ("nrc-const-service", "two-length-service"):
        svc = _nrc_service() if desc == "nrc-const-service" else _two_length_service()
        message = H.bytes("message", 0, 4 if desc == "nrc-const-service" else 7)
        H.set_global(X, "strict_mode", True)
        try:
            m1 = svc.decode_message(message)
        except OdxError:
            return
        H.cover("strict-success")
        H.set_global(X, "strict_mode", False)
        try:
            m2 = svc.decode_message(message)
        except Exception:
            H.check("C17:strict-success-implies-lenient-success", False)
            return
        H.check("C17,C06:same-interpretation-in-both-modes",
                H.And(m1.coding_object is m2.coding_object, H.eq(m1.param_dict, m2.param_dict)))
        return
    codec, specs, trigger = DESCRIPTIONS[desc]()
    if phase == "decode":
        _same_decoding_in_both_modes(codec)
        return
    values = {name: _value(name, kind) for (name, kind) in specs}
    request_bytes = H.bytes("triggering_request", 0, 5) if trigger else None
    results = []
    for strict in (True, False):
        H.set_global(X, "strict_mode", strict)
        try:
            pdu = codec.encode(coded_request=request_bytes, **values) if trigger else codec.encode(**values)
            results.append(H.snapshot(pdu))
        except OdxError:
            if strict:
                return
            H.check("C17:strict-success-implies-lenient-success", False)
            return
        except Exception:
            if strict:
                return
            H.check("C17:strict-success-implies-lenient-success", False)
            return
    H.cover("strict-success")
    H.check("C17:encoding-gives-the-same-pdu-in-both-modes", H.eq(results[0], results[1]))


def _same_decoding_in_both_modes(codec):
    message = H.bytes("message", 0, 6)
    decoded = []
    for strict in (True, False):
        H.set_global(X, "strict_mode", strict)
        try:
            decoded.append(codec.decode(message))
        except OdxError:
            if strict:
                return
            H.check("C17:strict-success-implies-lenient-success", False)
            return
        except Exception:
            if strict:
                return
            H.check("C17:strict-success-implies-lenient-success", False)
            return
    H.cover("strict-success")
    H.check("C17:decoding-gives-the-same-values-in-both-modes", H.eq(decoded[0], decoded[1]))
