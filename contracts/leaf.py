# Leaf contracts: EncodeState.emplace_atomic_value / emplace_bytes and DecodeState.extract_atomic_value against the
# wire-format specification spec/wire.py (properties C01-C05, C08; strict-mode clause of C17).
#
# Strength E: the description scalars (data type, encoding, bit length 1..64, bit position 0..7, byte order) are
# enumerated (thorough: the whole domain, quick: a seeded sample containing the boundary values); everything else - the
# value, the PDU built so far, its used-bit mask, cursor and origin - is symbolic and unbounded (P).
import random

import odxtools.exceptions as X
from odxtools.decodestate import DecodeState
from odxtools.encodestate import EncodeState
from odxtools.encoding import Encoding
from odxtools.exceptions import DecodeError, EncodeError, OdxError, OdxWarning
from odxtools.odxtypes import DataType
from pyvc.api import H
from pyvc.loops import while_invariant
from pyvc.registry import call_contract, harness
from spec import wire as W

# ---------------------------------------------------------------------------------------------------------------
# K4: the BCD helpers.  Their loops are value dependent; the contract below is what callers use (modular), and the
# harnesses bcd_encode_helper / bcd_decode_helper verify the real helpers against it by unrolling (bounded, B).
BCD_BOUND = 10**W.BCD_MAX_DIGITS


@call_contract(EncodeState._EncodeState__encode_bcd_p, "bcd")
def encode_bcd_p_contract(value):
    H.check("pre:bcd-value-is-not-negative", value >= 0)
    if value < BCD_BOUND:
        return W.bcd_raw("BCD_P", value)
    # assumed, not proved (outside the unrolling bound): 20 or more digits need more than 64 bits
    r = H.fresh_int("bcd_big")
    H.assume(r >= 16**W.BCD_MAX_DIGITS)
    return r


@call_contract(EncodeState._EncodeState__encode_bcd_up, "bcd")
def encode_bcd_up_contract(value):
    H.check("pre:bcd-value-is-not-negative", value >= 0)
    if value < BCD_BOUND:
        return W.bcd_raw("BCD_UP", value)
    r = H.fresh_int("bcd_big")
    H.assume(r >= 256**W.BCD_MAX_DIGITS)
    return r


def _bcd_inv(per, k, value, result, shift, value0):
    digits = H.decimal_digits(value0, W.BCD_MAX_DIGITS)
    rest, done = 0, 0
    for j in range(k, W.BCD_MAX_DIGITS):
        rest = rest + digits[j] * 10**(j - k)
    for j in range(k):
        done = done + digits[j] * (1 << (per * j))
    return H.And(value == rest, shift == per * k, result == done)


@while_invariant(EncodeState._EncodeState__encode_bcd_p, 0, modifies=["value", "result", "shift"],
                 max_iter=W.BCD_MAX_DIGITS)
def inv_encode_bcd_p(k, value, result, shift, value0):
    return _bcd_inv(4, k, value, result, shift, value0)


@while_invariant(EncodeState._EncodeState__encode_bcd_up, 0, modifies=["value", "result", "shift"],
                 max_iter=W.BCD_MAX_DIGITS)
def inv_encode_bcd_up(k, value, result, shift, value0):
    return _bcd_inv(8, k, value, result, shift, value0)


def _bcd_helper_family(tier, seed):
    return [{"enc": e} for e in ("BCD_P", "BCD_UP")]


@harness(props=["C02", "C04"], strength="B", family=_bcd_helper_family,
         bound="EncodeState.__encode_bcd_p/up verified against their call-site contract for values < 10^20 "
         "(loop invariant checked per iteration, up to 20 iterations); the contract clause for values >= 10^20 "
         "(result >= 16^20 resp. 256^20) is assumed",
         functions=[EncodeState._EncodeState__encode_bcd_p, EncodeState._EncodeState__encode_bcd_up])
def bcd_encode_helper(enc):
    """__encode_bcd_p/up(value) == digit k of value in nibble/byte k (loop invariant per iteration), 0 <= value < 10^20"""
    value = H.int("value", 0, BCD_BOUND - 1)
    if enc == "BCD_P":
        r = EncodeState._EncodeState__encode_bcd_p(value)
    else:
        r = EncodeState._EncodeState__encode_bcd_up(value)
    H.check("bcd-helper-agrees-with-call-site-contract", r == W.bcd_raw(enc, value))


INT_COMBOS = [("A_UINT32", None), ("A_UINT32", "NONE"), ("A_UINT32", "BCD_P"), ("A_UINT32", "BCD_UP"),
              ("A_INT32", None), ("A_INT32", "TWOC"), ("A_INT32", "ONEC"), ("A_INT32", "SM")]


def _enc(enc):
    return None if enc is None else Encoding[enc]


def int_family(tier, seed, combos=None):
    combos = combos or INT_COMBOS
    out = []
    if tier == "thorough":
        for dt, enc in combos:
            for n in range(1, 65):
                for bp in range(8):
                    for hl in (True, False):
                        out.append({"dt": dt, "enc": enc, "n": n, "bp": bp, "hl": hl})
        return out
    rnd = random.Random(seed)
    ns = [1, 2, 7, 8, 9, 12, 16, 31, 32, 33, 63, 64]
    for dt, enc in combos:
        picks = set()
        # boundary values always, plus seeded picks
        for n, bp, hl in [(8, 0, True), (1, 7, True), (64, 0, False), (12, 3, False), (32, 0, True), (16, 4, True)]:
            picks.add((n, bp, hl))
        while len(picks) < 9:
            picks.add((rnd.choice(ns + [rnd.randint(1, 64)]), rnd.randint(0, 7), rnd.random() < 0.5))
        for n, bp, hl in sorted(picks):
            out.append({"dt": dt, "enc": enc, "n": n, "bp": bp, "hl": hl})
    return out


def _encode_state(bp):
    msg = H.bytearray("msg")
    mask = H.bytearray("mask")
    H.assume(len(msg) == len(mask))
    cur = H.int("cur", 0)
    origin = H.int("origin", 0)
    H.assume(origin <= cur)
    es = EncodeState(coded_message=msg, used_mask=mask, origin_byte_position=origin, cursor_byte_position=cur,
                     cursor_bit_position=bp)
    return es, cur, origin


def _field_content_from_pdu(msg, cur, dt, n, bp, hl):
    """the n-bit field content at (cur, bp) of a PDU, by the ODX rule, as an integer over the byte values"""
    L = W.group_len(n, bp)
    G = W.group_int(msg[cur:cur + L], dt, hl)
    return (G >> bp) & ((1 << n) - 1)


def _check_encoded_group(es, old_msg, old_mask, cur, origin, dt, n, bp, hl, R):
    """whole-view postcondition of one atomic value written at (cur, bp): R is the n-bit field content (an int).
    Stated per PDU byte k of the group: with the group read as one big-endian integer (bytes reversed for low-high
    numeric types) bit i of R is bit bp+i of the group."""
    L = W.group_len(n, bp)
    M = W.field_mask(n, bp)
    new, new_mask = es.coded_message, es.used_mask
    H.check("C02,C03:pdu-length-is-max-of-old-and-end-of-object",
            H.And(len(new) == H.ite(len(old_msg) > cur + L, len(old_msg), cur + L), len(new_mask) == len(new)))
    ext_old = W.extend(old_msg, cur + L)
    ext_mask = W.extend(old_mask, cur + L)
    H.check("C02,C03:claimed-bits-hold-the-field-content", _field_content_from_pdu(new, cur, dt, n, bp, hl) == R)
    unclaimed_ok, mask_ok, overlap = [], [], []
    for k in range(L):
        idx = L - 1 - k if W.swap_needed(dt, hl) else k
        shift = 8 * (L - 1 - idx)
        mk = (M >> shift) & 0xFF
        nb, ob = new[cur + k], ext_old[cur + k]
        nm, om = new_mask[cur + k], ext_mask[cur + k]
        unclaimed_ok.append((nb & (0xFF - mk)) == (ob & (0xFF - mk)))
        mask_ok.append(nm == (om | mk))
        overlap.append((om & mk) != 0)
    H.check("C02,C03:unclaimed-bits-of-the-group-unchanged-or-zero", H.And(unclaimed_ok))
    H.check("C02,C03:used-mask-gains-exactly-the-claimed-bits", H.And(mask_ok))
    H.check("C02,C03:bytes-outside-the-group-unchanged",
            H.forall(0, len(new), lambda j: H.implies(H.Or(j < cur, j >= cur + L), H.And(
                H.byte_at(new, j) == H.byte_at(ext_old, j), H.byte_at(new_mask, j) == H.byte_at(ext_mask, j)))))
    H.check("C02,C08:cursor-advances-by-the-static-byte-length",
            H.And(es.cursor_byte_position == cur + L, es.cursor_bit_position == 0))
    H.check("C02:origin-unchanged", es.origin_byte_position == origin)
    H.check("C02:overlap-warning-iff-a-claimed-bit-was-already-used",
            H.eq(H.warnings(OdxWarning) > 0, H.Or(overlap)))


@harness(props=["C01", "C02", "C03", "C04", "C08"], strength="E", family=int_family,
         functions=[EncodeState.emplace_atomic_value, EncodeState.emplace_bytes, EncodeState.__post_init__],
         covers=["accepted", "rejected"], assumes=["A-bitstruct"], use_contracts=["bcd"])
def encode_int(dt, enc, n, bp, hl):
    """emplace_atomic_value, integer types: accept => representable and the PDU is bit-exact (whole view); reject => OdxError"""
    es, cur, origin = _encode_state(bp)
    v = H.int("v")
    old_msg, old_mask = H.snapshot(es.coded_message), H.snapshot(es.used_mask)
    try:
        es.emplace_atomic_value(internal_value=v, bit_length=n, base_data_type=DataType[dt],
                                base_type_encoding=_enc(enc), is_highlow_byte_order=hl, used_mask=None)
    except OdxError:
        H.cover("rejected")
        H.check("C04:only-unrepresentable-values-are-rejected", H.Not(W.repr_ok(dt, enc, n, v)))
        return
    except Exception:
        H.check("C04:rejections-are-odxtools-errors-never-foreign-exceptions", False)
        return
    H.cover("accepted")
    H.check("C04:rejections-are-odxtools-errors-never-foreign-exceptions", True)
    H.check("C01,C04:accepted-implies-representable", W.repr_ok(dt, enc, n, v))
    H.assume(W.repr_ok(dt, enc, n, v))
    _check_encoded_group(es, old_msg, old_mask, cur, origin, dt, n, bp, hl, W.raw(dt, enc, n, v))




# ---------------------------------------------------------------------------------------------------------------
# K3: DecodeState.extract_atomic_value
@call_contract(DecodeState._DecodeState__decode_bcd_p, "bcd")
def decode_bcd_p_contract(value):
    H.check("pre:bcd-raw-value-fits-64-bits", H.And(0 <= value, value < (1 << 64)))
    return W.val("A_UINT32", "BCD_P", 64, value)


@call_contract(DecodeState._DecodeState__decode_bcd_up, "bcd")
def decode_bcd_up_contract(value):
    H.check("pre:bcd-raw-value-fits-64-bits", H.And(0 <= value, value < (1 << 64)))
    return W.val("A_UINT32", "BCD_UP", 64, value)


def _bcd_dec_partial(per, value0, k):
    r = 0
    for j in range(k):
        r = r + H.mod(H.div(value0, 1 << (per * j)), 16) * 10**j
    return r


@while_invariant(DecodeState._DecodeState__decode_bcd_p, 0, modifies=["value", "result", "factor"], max_iter=16)
def inv_decode_bcd_p(k, value, result, factor, value0):
    return H.And(value == H.div(value0, 1 << (4 * k)), factor == 10**k, result == _bcd_dec_partial(4, value0, k))


@while_invariant(DecodeState._DecodeState__decode_bcd_up, 0, modifies=["value", "result", "factor"], max_iter=8)
def inv_decode_bcd_up(k, value, result, factor, value0):
    return H.And(value == H.div(value0, 1 << (8 * k)), factor == 10**k, result == _bcd_dec_partial(8, value0, k))


@harness(props=["C02", "C05"], strength="P", family=_bcd_helper_family,
         functions=[DecodeState._DecodeState__decode_bcd_p, DecodeState._DecodeState__decode_bcd_up])
def bcd_decode_helper(enc):
    """__decode_bcd_p/up(raw) == sum of (low nibble of nibble/byte k) * 10^k for every raw value of up to 64 bits"""
    value = H.int("value", 0, (1 << 64) - 1)
    if enc == "BCD_P":
        r = DecodeState._DecodeState__decode_bcd_p(value)
    else:
        r = DecodeState._DecodeState__decode_bcd_up(value)
    H.check("bcd-decode-helper-agrees-with-call-site-contract", r == W.val("A_UINT32", enc, 64, value))


@harness(props=["C01", "C02", "C03", "C05", "C08"], strength="E", family=int_family,
         functions=[DecodeState.extract_atomic_value], covers=["decoded", "too-short"], assumes=["A-bitstruct"],
         use_contracts=["bcd"])
def decode_int(dt, enc, n, bp, hl):
    """extract_atomic_value, integer types: DecodeError iff the PDU ends before the object; otherwise the value of
    exactly the described bits, cursor advanced by the static length; nothing else is raised"""
    msg = H.bytes("msg")
    cur = H.int("cur", 0)
    origin = H.int("origin", 0)
    H.assume(origin <= cur)
    ds = DecodeState(coded_message=msg, origin_byte_position=origin, cursor_byte_position=cur,
                     cursor_bit_position=bp)
    L = W.group_len(n, bp)
    try:
        v = ds.extract_atomic_value(bit_length=n, base_data_type=DataType[dt], base_type_encoding=_enc(enc),
                                    is_highlow_byte_order=hl)
    except DecodeError:
        H.cover("too-short")
        H.check("C05:decode-error-only-if-the-pdu-ends-before-the-object", cur + L > len(msg))
        return
    except Exception:
        H.check("C05:only-decode-errors-escape", False)
        return
    H.cover("decoded")
    H.check("C05:only-decode-errors-escape", True)
    H.check("C05:truncated-pdu-is-rejected-not-completed", cur + L <= len(msg))
    H.assume(cur + L <= len(msg))
    R = _field_content_from_pdu(msg, cur, dt, n, bp, hl)
    H.check("C01,C02,C03:decoded-value-is-the-value-of-the-described-bits", v == W.val(dt, enc, n, R))
    H.check("C02,C08:cursor-advances-by-the-static-byte-length",
            H.And(ds.cursor_byte_position == cur + L, ds.cursor_bit_position == 0))
    H.check("C02:origin-unchanged", ds.origin_byte_position == origin)


@harness(props=["C01", "C03", "C04"], strength="E",
         family=lambda tier, seed: [{"dt": dt, "enc": enc, "n": n} for dt, enc in INT_COMBOS
                                    for n in (range(1, 65) if tier == "thorough" else (1, 2, 8, 13, 32, 64))
                                    if not (enc in ("BCD_P", "BCD_UP") and n > 16)])
def lemma_leaf_roundtrip(dt, enc, n):
    """RT-leaf over the wire specification only: val(raw(v)) = v for representable v; raw(val(r)) = r for canonical r"""
    v = H.int("v")
    H.assume(W.repr_ok(dt, enc, n, v))
    r = W.raw(dt, enc, n, v)
    H.check("C01:raw-fits-the-field", H.And(0 <= r, r < (1 << n)))
    H.check("C01:value-of-raw-is-the-value", W.val(dt, enc, n, r) == v)
    r2 = H.int("r", 0, (1 << n) - 1)
    H.assume(W.canonical(dt, enc, n, r2))
    v2 = W.val(dt, enc, n, r2)
    H.check("C03:value-of-canonical-content-is-representable", W.repr_ok(dt, enc, n, v2))
    H.check("C03:raw-of-value-is-the-content", W.raw(dt, enc, n, v2) == r2)


# ---------------------------------------------------------------------------------------------------------------
# floats, byte fields, strings
def float_family(tier, seed):
    out = []
    for dt, good in (("A_FLOAT32", 32), ("A_FLOAT64", 64)):
        for n in (good, 16 if good == 32 else 32):
            for bp in ((0, 4) if tier == "quick" else range(8)):
                for hl in (True, False):
                    out.append({"dt": dt, "n": n, "bp": bp, "hl": hl})
    return out


@harness(props=["C01", "C02", "C03", "C04", "C08"], strength="E", family=float_family,
         functions=[EncodeState.emplace_atomic_value, EncodeState.emplace_bytes], covers=["accepted", "rejected"],
         assumes=["A-bitstruct", "A-float"])
def encode_float(dt, n, bp, hl):
    """emplace_atomic_value, float types: bit length must be 32/64; the PDU holds the IEEE image (A-float)"""
    es, cur, origin = _encode_state(bp)
    v = H.real("v")
    good = 32 if dt == "A_FLOAT32" else 64
    old_msg, old_mask = H.snapshot(es.coded_message), H.snapshot(es.used_mask)
    try:
        es.emplace_atomic_value(internal_value=v, bit_length=n, base_data_type=DataType[dt], base_type_encoding=None,
                                is_highlow_byte_order=hl, used_mask=None)
    except OdxError:
        H.cover("rejected")
        H.check("C04:only-illegal-float-lengths-are-rejected", n != good)
        return
    except Exception:
        H.check("C04:rejections-are-odxtools-errors-never-foreign-exceptions", False)
        return
    H.cover("accepted")
    H.check("C04:rejections-are-odxtools-errors-never-foreign-exceptions", True)
    H.check("C04:accepted-implies-legal-float-length", n == good)
    if n == good:
        _check_encoded_group(es, old_msg, old_mask, cur, origin, dt, n, bp, hl, H.float_bits(v, n))


@harness(props=["C01", "C02", "C03", "C05", "C08"], strength="E", family=float_family,
         functions=[DecodeState.extract_atomic_value], covers=["decoded", "too-short"],
         assumes=["A-bitstruct", "A-float"])
def decode_float(dt, n, bp, hl):
    """extract_atomic_value, float types: DecodeError iff too short (or OdxError for an illegal length); value = IEEE
    reading of exactly the described bits"""
    msg = H.bytes("msg")
    cur = H.int("cur", 0)
    good = 32 if dt == "A_FLOAT32" else 64
    ds = DecodeState(coded_message=msg, cursor_byte_position=cur, cursor_bit_position=bp)
    L = W.group_len(n, bp)
    try:
        v = ds.extract_atomic_value(bit_length=n, base_data_type=DataType[dt], base_type_encoding=None,
                                    is_highlow_byte_order=hl)
    except DecodeError:
        H.cover("too-short")
        H.check("C05:decode-error-only-if-the-pdu-ends-before-the-object", cur + L > len(msg))
        return
    except OdxError:
        H.check("illegal-float-length-is-an-odxerror", n != good)
        return
    except Exception:
        H.check("C05:only-decode-errors-escape", False)
        return
    H.cover("decoded")
    H.check("C05:only-decode-errors-escape", True)
    H.check("C05:truncated-pdu-is-rejected-not-completed", cur + L <= len(msg))
    H.assume(cur + L <= len(msg))
    R = _field_content_from_pdu(msg, cur, dt, n, bp, hl)
    H.check("C01,C02,C03:decoded-value-is-the-value-of-the-described-bits", v == H.float_of_bits(R, n))
    H.check("C02,C08:cursor-advances-by-the-static-byte-length",
            H.And(ds.cursor_byte_position == cur + L, ds.cursor_bit_position == 0))


def bytes_family(tier, seed):
    out = []
    for enc in (None, "NONE", "BCD_P", "BCD_UP"):
        for n in ((8, 24, 64) if tier == "quick" else (8, 16, 24, 32, 40, 64, 128)):
            for hl in (True, False):
                out.append({"enc": enc, "n": n, "hl": hl})
    return out


@harness(props=["C01", "C02", "C03", "C04", "C08"], strength="E", family=bytes_family,
         functions=[EncodeState.emplace_atomic_value, EncodeState.emplace_bytes], covers=["accepted", "rejected"],
         assumes=["A-bitstruct"])
def encode_bytefield(enc, n, hl):
    """emplace_atomic_value, A_BYTEFIELD (bit position 0): accepted iff the value has exactly n/8 bytes; the PDU holds
    these bytes in order; over- and under-long values are rejected with an odxtools error"""
    es, cur, origin = _encode_state(0)
    v = H.bytes("v")
    old_msg, old_mask = H.snapshot(es.coded_message), H.snapshot(es.used_mask)
    try:
        es.emplace_atomic_value(internal_value=v, bit_length=n, base_data_type=DataType.A_BYTEFIELD,
                                base_type_encoding=_enc(enc), is_highlow_byte_order=hl, used_mask=None)
    except OdxError:
        H.cover("rejected")
        H.check("C04:only-values-of-the-wrong-length-are-rejected", 8 * len(v) != n)
        return
    except Exception:
        H.check("C04:rejections-are-odxtools-errors-never-foreign-exceptions", False)
        return
    H.cover("accepted")
    H.check("C04:rejections-are-odxtools-errors-never-foreign-exceptions", True)
    H.check("C01,C04:accepted-implies-exact-length-no-padding-no-truncation", 8 * len(v) == n)
    H.assume(8 * len(v) == n)
    L = n // 8
    new, new_mask = es.coded_message, es.used_mask
    H.check("C02:pdu-holds-the-bytes-in-order", H.eq(new[cur:cur + L], v))
    H.check("C02,C03:pdu-length-is-max-of-old-and-end-of-object",
            H.And(len(new) == H.ite(len(old_msg) > cur + L, len(old_msg), cur + L), len(new_mask) == len(new)))
    ext_old, ext_mask = W.extend(old_msg, cur + L), W.extend(old_mask, cur + L)
    H.check("C02,C03:used-mask-gains-exactly-the-claimed-bits", H.eq(new_mask[cur:cur + L], b"\xff" * L))
    H.check("C02,C03:bytes-outside-the-group-unchanged",
            H.forall(0, len(new), lambda j: H.implies(H.Or(j < cur, j >= cur + L), H.And(
                H.byte_at(new, j) == H.byte_at(ext_old, j), H.byte_at(new_mask, j) == H.byte_at(ext_mask, j)))))
    H.check("C02,C08:cursor-advances-by-the-static-byte-length",
            H.And(es.cursor_byte_position == cur + L, es.cursor_bit_position == 0))
    H.check("C02:overlap-warning-iff-a-claimed-bit-was-already-used",
            H.eq(H.warnings(OdxWarning) > 0, H.Not(H.eq(ext_mask[cur:cur + L], b"\x00" * L))))


@harness(props=["C01", "C02", "C03", "C05", "C08"], strength="E", family=bytes_family,
         functions=[DecodeState.extract_atomic_value], covers=["decoded", "too-short"], assumes=["A-bitstruct"])
def decode_bytefield(enc, n, hl):
    """extract_atomic_value, A_BYTEFIELD: DecodeError iff too short, else exactly the n/8 described bytes"""
    msg = H.bytes("msg")
    cur = H.int("cur", 0)
    ds = DecodeState(coded_message=msg, cursor_byte_position=cur, cursor_bit_position=0)
    L = W.group_len(n, 0)
    try:
        v = ds.extract_atomic_value(bit_length=n, base_data_type=DataType.A_BYTEFIELD, base_type_encoding=_enc(enc),
                                    is_highlow_byte_order=hl)
    except DecodeError:
        H.cover("too-short")
        H.check("C05:decode-error-only-if-the-pdu-ends-before-the-object", cur + L > len(msg))
        return
    except Exception:
        H.check("C05:only-decode-errors-escape", False)
        return
    H.cover("decoded")
    H.check("C05:only-decode-errors-escape", True)
    H.check("C05:truncated-pdu-is-rejected-not-completed", cur + L <= len(msg))
    H.assume(cur + L <= len(msg))
    if n % 8 == 0:
        H.check("C01,C02,C03:decoded-value-is-the-value-of-the-described-bits", H.eq(v, msg[cur:cur + L]))
    H.check("C02,C08:cursor-advances-by-the-static-byte-length",
            H.And(ds.cursor_byte_position == cur + L, ds.cursor_bit_position == 0))


# ---- byte fields of any length (P in the length as well): a single raw field of symbolic size is copied by bitstruct
# ---- byte for byte, so no size has to be enumerated; MIN-MAX-LENGTH, LEADING-LENGTH and END-OF-PDU objects are byte
# ---- fields whose length is only known from the value or from the message
@harness(props=["C01", "C02", "C03", "C05", "C08"], strength="P",
         family=lambda t, s: [{"enc": e, "hl": h} for e in (None, "BCD_P") for h in (True, False)],
         functions=[DecodeState.extract_atomic_value], covers=["decoded", "too-short", "empty"], assumes=["A-bitstruct"],
         limits={"symbolic_raw_fields": True})
def decode_bytefield_of_any_length(enc, hl):
    """extract_atomic_value, A_BYTEFIELD of k bytes, k symbolic and unbounded: DecodeError iff the PDU ends before the
    object, else exactly the k described bytes; the cursor advances by k"""
    msg = H.bytes("msg")
    cur = H.int("cur", 0)
    k = H.int("bytes_in_the_field", 0)
    ds = DecodeState(coded_message=msg, cursor_byte_position=cur, cursor_bit_position=0)
    try:
        v = ds.extract_atomic_value(bit_length=8 * k, base_data_type=DataType.A_BYTEFIELD,
                                    base_type_encoding=_enc(enc), is_highlow_byte_order=hl)
    except DecodeError:
        H.cover("too-short")
        H.check("C05:decode-error-only-if-the-pdu-ends-before-the-object", cur + k > len(msg))
        return
    except Exception:
        H.check("C05:only-decode-errors-escape", False)
        return
    H.cover("empty" if k == 0 else "decoded")
    H.check("C05:only-decode-errors-escape", True)
    H.check("C05:truncated-pdu-is-rejected-not-completed", H.Or(k == 0, cur + k <= len(msg)))
    H.check("C01,C02,C03:decoded-value-is-the-value-of-the-described-bits",
            H.And(len(v) == k, H.forall(0, k, lambda j: H.byte_at(v, j) == H.byte_at(msg, cur + j))))
    H.check("C02,C08:cursor-advances-by-the-static-byte-length",
            H.And(ds.cursor_byte_position == cur + k, ds.cursor_bit_position == 0))


@harness(props=["C01", "C02", "C03", "C04", "C08"], strength="P",
         family=lambda t, s: [{"enc": e, "hl": h} for e in (None, "BCD_UP") for h in (True, False)],
         functions=[EncodeState.emplace_atomic_value, EncodeState.emplace_bytes], covers=["accepted", "rejected"],
         assumes=["A-bitstruct"], limits={"symbolic_raw_fields": True})
def encode_bytefield_of_any_length(enc, hl):
    """emplace_atomic_value, A_BYTEFIELD of k bytes, k symbolic and unbounded: accepted iff the value has exactly k
    bytes; whole view of the PDU and of the used-bit mask afterwards"""
    es, cur, origin = _encode_state(0)
    v = H.bytes("v")
    k = H.int("bytes_in_the_field", 1)
    old_len = len(es.coded_message)
    old_msg = W.extend(H.snapshot(es.coded_message), cur + k)
    old_mask = W.extend(H.snapshot(es.used_mask), cur + k)
    try:
        es.emplace_atomic_value(internal_value=v, bit_length=8 * k, base_data_type=DataType.A_BYTEFIELD,
                                base_type_encoding=_enc(enc), is_highlow_byte_order=hl, used_mask=None)
    except OdxError:
        H.cover("rejected")
        H.check("C04:only-values-of-the-wrong-length-are-rejected", len(v) != k)
        return
    except Exception:
        H.check("C04:rejections-are-odxtools-errors-never-foreign-exceptions", False)
        return
    H.cover("accepted")
    H.check("C04:rejections-are-odxtools-errors-never-foreign-exceptions", True)
    H.check("C01,C04:accepted-implies-exact-length-no-padding-no-truncation", len(v) == k)
    new, new_mask = es.coded_message, es.used_mask
    H.check("C02,C03:pdu-length-is-max-of-old-and-end-of-object",
            H.And(len(new) == H.ite(old_len > cur + k, old_len, cur + k), len(new_mask) == len(new)))
    H.check("C02,C03:pdu-holds-the-bytes-in-order",
            H.forall(cur, cur + k, lambda j: H.byte_at(new, j) == H.byte_at(v, j - cur)), independent=True)
    H.check("C02,C03:used-mask-gains-exactly-the-claimed-bits",
            H.forall(cur, cur + k, lambda j: H.byte_at(new_mask, j) == 255), independent=True)
    H.check("C02,C03:bytes-outside-the-group-unchanged",
            H.forall(0, len(new), lambda j: H.implies(H.Or(j < cur, j >= cur + k), H.And(
                H.byte_at(new, j) == _ext(old_msg, j), H.byte_at(new_mask, j) == _ext(old_mask, j)))),
            independent=True)
    H.check("C02,C08:cursor-advances-by-the-static-byte-length",
            H.And(es.cursor_byte_position == cur + k, es.cursor_bit_position == 0))


STRING_COMBOS = [("A_ASCIISTRING", None), ("A_ASCIISTRING", "ISO_8859_1"), ("A_ASCIISTRING", "ISO_8859_2"),
                 ("A_ASCIISTRING", "WINDOWS_1252"), ("A_UTF8STRING", None), ("A_UTF8STRING", "UTF8"),
                 ("A_UNICODE2STRING", None), ("A_UNICODE2STRING", "UCS2")]


def string_family(tier, seed):
    out = []
    for dt, enc in STRING_COMBOS:
        for n in ((16, 64) if tier == "quick" else (8, 16, 32, 64, 128)):
            for hl in (True, False):
                out.append({"dt": dt, "enc": enc, "n": n, "hl": hl})
    return out


@harness(props=["C01", "C02", "C04", "C08"], strength="E", family=string_family,
         functions=[EncodeState.emplace_atomic_value, EncodeState.emplace_bytes], covers=["accepted", "rejected"],
         assumes=["A-bitstruct", "A-codec"], crosscheck=False)
def encode_string(dt, enc, n, hl):
    """emplace_atomic_value, string types: the PDU holds the codec image of the text; accepted iff it has exactly n/8
    bytes; unencodable text and wrong lengths are rejected with an odxtools error (A-codec)"""
    es, cur, origin = _encode_state(0)
    v = H.text("v")
    old_msg = H.snapshot(es.coded_message)
    try:
        es.emplace_atomic_value(internal_value=v, bit_length=n, base_data_type=DataType[dt],
                                base_type_encoding=_enc(enc), is_highlow_byte_order=hl, used_mask=None)
    except OdxError:
        H.cover("rejected")
        return
    except Exception:
        H.check("C04:rejections-are-odxtools-errors-never-foreign-exceptions", False)
        return
    H.cover("accepted")
    H.check("C04:rejections-are-odxtools-errors-never-foreign-exceptions", True)
    L = n // 8
    new = es.coded_message
    # what was written must decode (same codec) to the text: no truncation, no padding
    ds = DecodeState(coded_message=bytes(new), cursor_byte_position=cur, cursor_bit_position=0)
    try:
        v2 = ds.extract_atomic_value(bit_length=n, base_data_type=DataType[dt], base_type_encoding=_enc(enc),
                                     is_highlow_byte_order=hl)
    except Exception:
        H.check("C01,C04:accepted-text-decodes-back", False)
        return
    H.check("C01,C04:accepted-text-decodes-back", v2 == v)
    H.check("C02,C08:cursor-advances-by-the-static-byte-length",
            H.And(es.cursor_byte_position == cur + L, es.cursor_bit_position == 0,
                  ds.cursor_byte_position == cur + L))
    H.check("C02,C03:pdu-length-is-max-of-old-and-end-of-object",
            len(new) == H.ite(len(old_msg) > cur + L, len(old_msg), cur + L))


@harness(props=["C05", "C17"], strength="E", family=string_family,
         functions=[DecodeState.extract_atomic_value], covers=["decoded", "too-short"],
         assumes=["A-bitstruct", "A-codec"], crosscheck=False)
def decode_string(dt, enc, n, hl):
    """extract_atomic_value, string types, arbitrary bytes: only DecodeError escapes (undecodable bytes included);
    in non-strict mode undecodable bytes are replaced, never an error (C17: the flag is read at call time)"""
    strict = H.bool("strict")
    H.set_global(X, "strict_mode", strict)
    msg = H.bytes("msg")
    cur = H.int("cur", 0)
    ds = DecodeState(coded_message=msg, cursor_byte_position=cur, cursor_bit_position=0)
    L = W.group_len(n, 0)
    try:
        v = ds.extract_atomic_value(bit_length=n, base_data_type=DataType[dt], base_type_encoding=_enc(enc),
                                    is_highlow_byte_order=hl)
    except DecodeError:
        H.cover("too-short")
        H.check("C17:undecodable-text-is-an-error-only-in-strict-mode", H.Or(strict, cur + L > len(msg)))
        return
    except Exception:
        H.check("C05:only-decode-errors-escape", False)
        return
    H.cover("decoded")
    H.check("C05:only-decode-errors-escape", True)
    H.check("C05:truncated-pdu-is-rejected-not-completed", cur + L <= len(msg))
    H.check("C02,C08:cursor-advances-by-the-static-byte-length",
            H.And(ds.cursor_byte_position == cur + L, ds.cursor_bit_position == 0))


WRONG_KINDS = ("int", "bool", "float", "str", "bytes", "bytearray", "none", "list")


def wrongtype_family(tier, seed):
    out = []
    for dt, enc, n in (("A_UINT32", None, 16), ("A_INT32", "TWOC", 16), ("A_FLOAT32", None, 32),
                       ("A_FLOAT64", None, 64), ("A_BYTEFIELD", None, 16), ("A_ASCIISTRING", None, 16),
                       ("A_UTF8STRING", None, 16), ("A_UNICODE2STRING", None, 16), ("A_UINT32", "BCD_P", 16)):
        for kind in WRONG_KINDS:
            out.append({"dt": dt, "enc": enc, "n": n, "kind": kind})
    return out


@harness(props=["C04"], strength="E", family=wrongtype_family, functions=[EncodeState.emplace_atomic_value],
         covers=["accepted", "rejected"], assumes=["A-bitstruct", "A-codec", "A-float"], crosscheck=False,
         use_contracts=["bcd"])
def encode_any_type(dt, enc, n, kind):
    """emplace_atomic_value with a value of every dynamic type (right and wrong): whatever happens, no foreign
    exception escapes - a wrongly typed value is rejected with an odxtools error or encoded faithfully"""
    es, cur, origin = _encode_state(0)
    v = H.value_of_kind("v", kind)
    try:
        es.emplace_atomic_value(internal_value=v, bit_length=n, base_data_type=DataType[dt],
                                base_type_encoding=_enc(enc), is_highlow_byte_order=True, used_mask=None)
    except OdxError:
        H.cover("rejected")
        H.check("C04:rejections-are-odxtools-errors-never-foreign-exceptions", True)
        return
    except Exception:
        H.check("C04:rejections-are-odxtools-errors-never-foreign-exceptions", False)
        return
    H.cover("accepted")


# ---------------------------------------------------------------------------------------------------------------
# K5: StandardLengthType with BIT-MASK
from odxtools.standardlengthtype import StandardLengthType  # noqa: E402

MASKS = {8: [0xff, 0x0f, 0x3c, 0x81], 16: [0xffff, 0x0ff0, 0xf00f, 0x03fc]}


def _mask_family(tier, seed):
    out = []
    for n in (8, 16):
        for m in MASKS[n]:
            for bp in ((0, 2) if tier == "quick" else (0, 1, 2, 5)):
                for hl in (True, False):
                    for condensed in (False, True):
                        if condensed and n > 8:
                            continue  # (the bit-by-bit condensing loops over 16 symbolic bits exceed the solver budget)
                        out.append({"n": n, "bit_mask": m, "bp": bp, "hl": hl, "condensed": condensed})
    return out


@harness(props=["C01", "C02", "C04", "C08"], strength="E", family=_mask_family,
         functions=[StandardLengthType.encode_into_pdu, StandardLengthType.decode_from_pdu,
                    StandardLengthType.get_static_bit_length, StandardLengthType._StandardLengthType__apply_mask,
                    StandardLengthType._StandardLengthType__unapply_mask,
                    StandardLengthType._StandardLengthType__get_used_mask],
         covers=["accepted"], assumes=["A-bitstruct"])
def standard_length_with_bit_mask(n, bit_mask, bp, hl, condensed):
    """STANDARD-LENGTH-TYPE with BIT-MASK: what the encoder accepts decodes back to the value; only the masked bits are
    claimed; a reported static bit length is the number of bits the encoding occupies"""
    dct = StandardLengthType(base_data_type=DataType.A_UINT32, base_type_encoding=None, bit_length=n, bit_mask=bit_mask,
                             is_highlow_byte_order_raw=hl, is_condensed_raw=condensed)
    es, cur, origin = _encode_state(bp)
    H.assume(len(es.coded_message) <= cur)  # the object is appended
    v = H.int("v", 0)
    try:
        dct.encode_into_pdu(v, es)
    except OdxError:
        return
    except Exception:
        H.check("C04:rejections-are-odxtools-errors-never-foreign-exceptions", False)
        return
    H.cover("accepted")
    ds = DecodeState(coded_message=bytes(es.coded_message), cursor_byte_position=cur, cursor_bit_position=bp)
    try:
        back = dct.decode_from_pdu(ds)
    except Exception:
        H.check("C04:what-the-encoder-accepts-decodes", False)
        return
    H.check("C01,C04:accepted-value-decodes-back-no-bits-dropped-silently", back == v)
    static = dct.get_static_bit_length()
    occupied = 8 * (es.cursor_byte_position - cur)
    H.check("C08:static-bit-length-is-what-the-encoding-occupies",
            occupied == 8 * W.group_len(static, bp))
    H.check("C02:decoder-consumes-what-the-encoder-produced", ds.cursor_byte_position == es.cursor_byte_position)


# ---------------------------------------------------------------------------------------------------------------
# K1: EncodeState.emplace_bytes, all quantities symbolic (P): data and mask of symbolic length; the masked byte loop is
# discharged by an inductive invariant
from pyvc.loops import for_invariant  # noqa: E402


def _ext(ext_old, j):
    """byte j of the zero-extended old array (non-forking, for use under quantifiers)"""
    return H.byte_at(ext_old, j)


@for_invariant(EncodeState.emplace_bytes, 0, modifies=["self.coded_message", "self.used_mask"])
def inv_emplace_bytes(i, self, new_data, obj_used_mask, old_coded_message, old_used_mask):
    """after i iterations: lengths are final; bytes [pos, pos+i) hold the merged data and their mask is or-ed; every
    other byte is as on loop entry"""
    pos = self.cursor_byte_position
    cm, um = self.coded_message, self.used_mask
    return H.And(
        len(cm) == len(old_coded_message), len(um) == len(old_used_mask),
        H.forall(0, len(cm), lambda j: H.ite(
            H.And(pos <= j, j < pos + i),
            H.And(H.byte_at(cm, j) == ((H.byte_at(old_coded_message, j) & (H.byte_at(obj_used_mask, j - pos) ^ 255)) |
                                       (H.byte_at(new_data, j - pos) & H.byte_at(obj_used_mask, j - pos))),
                  H.byte_at(um, j) == (H.byte_at(old_used_mask, j) | H.byte_at(obj_used_mask, j - pos))),
            H.And(H.byte_at(cm, j) == H.byte_at(old_coded_message, j),
                  H.byte_at(um, j) == H.byte_at(old_used_mask, j)))))


@harness(props=["C02"], strength="P", family=lambda t, s: [{"with_mask": False}, {"with_mask": True}],
         functions=[EncodeState.emplace_bytes], covers=["done"], crosscheck=False)
def emplace_bytes_contract(with_mask):
    """emplace_bytes with data (and mask) of any length at any cursor: whole-view postcondition - zero extension to
    max(old length, cursor + n), masked merge of the n bytes at the cursor, mask or-ed, everything else unchanged,
    cursor advanced by n"""
    es, cur, origin = _encode_state(0)
    data = H.bytes("data")
    n = len(data)
    m = H.bytes("obj_mask") if with_mask else None
    if with_mask:
        H.assume(len(m) == n)
    old_len = len(es.coded_message)
    old_msg = W.extend(H.snapshot(es.coded_message), cur + n)
    old_mask = W.extend(H.snapshot(es.used_mask), cur + n)
    if with_mask:
        es.emplace_bytes(data, obj_used_mask=m)
    else:
        es.emplace_bytes(data)
    H.cover("done")
    new, new_mask = es.coded_message, es.used_mask
    H.check("C02:pdu-length-is-max-of-old-and-end-of-object",
            H.And(len(new) == H.ite(old_len > cur + n, old_len, cur + n), len(new_mask) == len(new)))
    H.check("C02:cursor-advances-by-the-number-of-bytes", es.cursor_byte_position == cur + n)
    if with_mask:
        H.check("C02:masked-merge-whole-view",
                H.forall(0, len(new), lambda j: H.ite(
                    H.And(cur <= j, j < cur + n),
                    H.And(H.byte_at(new, j) == ((_ext(old_msg, j) & (H.byte_at(m, j - cur) ^ 255)) |
                                                (H.byte_at(data, j - cur) & H.byte_at(m, j - cur))),
                          H.byte_at(new_mask, j) == (_ext(old_mask, j) | H.byte_at(m, j - cur))),
                    H.And(H.byte_at(new, j) == _ext(old_msg, j), H.byte_at(new_mask, j) == _ext(old_mask, j)))))
    else:
        H.check("C02:overwrite-whole-view",
                H.forall(0, len(new), lambda j: H.ite(
                    H.And(cur <= j, j < cur + n),
                    H.And(H.byte_at(new, j) == H.byte_at(data, j - cur), H.byte_at(new_mask, j) == 255),
                    H.And(H.byte_at(new, j) == _ext(old_msg, j), H.byte_at(new_mask, j) == _ext(old_mask, j)))))


# ---------------------------------------------------------------------------------------------------------------
# LEADING-LENGTH-INFO-TYPE, modularly: the real encode_into_pdu runs against an encode state that obeys the contract
# the harnesses above prove for the real EncodeState (an unsigned integer is accepted iff it is representable in the
# given number of bits, a byte field iff it has exactly the given size; raw bytes are taken as they are).  No bits are
# computed, so the value may be as long as the widest length field can count - the 256 byte value that wraps an 8 bit
# length field is out of reach of the bit-level harnesses.
from odxtools.leadinglengthinfotype import LeadingLengthInfoType  # noqa: E402


class ContractEncodeState:

    def __init__(self):
        self.cursor_byte_position = 0
        self.cursor_bit_position = 0
        self.origin_byte_position = 0
        self.is_end_of_pdu = True
        self.records = []

    def emplace_atomic_value(self, *, internal_value, bit_length, base_data_type, base_type_encoding,
                             is_highlow_byte_order, used_mask):
        if base_data_type == DataType.A_UINT32:
            if not (internal_value >= 0 and internal_value < 2**bit_length):
                raise EncodeError("not representable")
            self.records.append(("uint", internal_value, bit_length, is_highlow_byte_order))
        else:
            if 8 * len(internal_value) != bit_length:
                raise EncodeError("size mismatch")
            self.records.append(("bytes", internal_value))

    def emplace_bytes(self, new_data, param_name=None, pos=None):
        self.records.append(("raw", new_data))


@harness(props=["C04", "C01"], strength="B", family=lambda t, s: [{"bits": b, "hl": hl} for b in (8, 16, 4)
                                                                  for hl in (None, False)],
         bound="byte field values of 0..70000 bytes (beyond what a 16 bit length field counts); length fields of 4, 8 "
         "and 16 bits; the encode state is the interface contract of EncodeState, not the class",
         functions=[LeadingLengthInfoType.encode_into_pdu, LeadingLengthInfoType._minimal_byte_length_of],
         covers=["accepted", "rejected"], assumes=["A-lib"], crosscheck=False)
def leading_length_field_counts_the_payload(bits, hl):
    """a LEADING-LENGTH-INFO-TYPE value is accepted iff its size is representable in the length field; the length field
    then denotes exactly the number of payload bytes that follow"""
    t = LeadingLengthInfoType(base_data_type=DataType.A_BYTEFIELD, base_type_encoding=None,
                              is_highlow_byte_order_raw=hl, bit_length=bits)
    v = H.bytes("value", 0, 70000)
    st = ContractEncodeState()
    try:
        t.encode_into_pdu(v, st)
    except EncodeError:
        H.cover("rejected")
        H.check("C04:only-values-too-long-for-the-length-field-are-rejected", len(v) >= 2**bits)
        return
    H.cover("accepted")
    H.check("C04,C01:accepted-implies-the-size-is-representable-in-the-length-field", len(v) < 2**bits)
    field = st.records[0]
    if field[0] == "uint":
        denoted, shaped = field[1], H.And(field[2] == bits, field[3] == (hl is None))
    elif field[0] == "raw":
        denoted = int.from_bytes(field[1], "big" if hl is None else "little")
        shaped = 8 * len(field[1]) == bits
    else:
        denoted, shaped = -1, False
    H.check("C04,C01:length-field-denotes-the-number-of-payload-bytes", H.And(shaped, denoted == len(v)))
    H.check("C04,C01:payload-follows-the-length-field",
            H.And(len(st.records) == 2, st.records[1][0] == "bytes", H.eq(st.records[1][1], v)))
