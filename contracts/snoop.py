# Contracts for the part of the snoop tool that processes frames and telegrams (property C13: processing traffic never
# raises): odxtools/cli/snoop.py, odxtools/uds.py
#
#   is_response_pending: total on arbitrary payloads, True exactly for 7F xx 78 (xx = the request SID if one is given)
#   handle_telegram:     total on arbitrary telegrams of both directions over a layer whose decode functions return
#                        interpretations or raise DecodeError (interface contract of DiagLayer.decode / decode_response)
#   verbose decoder:     the state machine snoop instantiates (init_verbose_state_machine) obeys the per-frame contract
#                        of isotp.refines_spec as well - its overridden error hooks must not raise
import odxtools.cli.snoop as snoop
import odxtools.uds as uds
from odxtools.exceptions import DecodeError
from pyvc.api import H
from pyvc.registry import harness


@harness(props=["C13"], strength="P", family=lambda t, s: [{"with_sid": False}, {"with_sid": True}],
         functions=[uds.is_response_pending], covers=["pending", "not-pending"])
def response_pending_is_total(with_sid):
    """is_response_pending never raises on any payload (0..4095 bytes) and recognises exactly 7F <sid> 78"""
    payload = H.bytes("payload", 0, 4095)
    sid = H.int("request_sid", 0, 255) if with_sid else None
    try:
        r = uds.is_response_pending(payload, sid) if with_sid else uds.is_response_pending(payload)
    except Exception:
        H.check("C13:never-raises", False)
        return
    want = False
    if len(payload) >= 3:
        want = H.And(H.byte_at(payload, 0) == 0x7F, H.byte_at(payload, 2) == 0x78,
                     True if sid is None else H.byte_at(payload, 1) == sid)
    H.cover("pending" if r else "not-pending")
    H.check("C13:never-raises", True)
    H.check("C13:response-pending-iff-7f-sid-78", H.eq(r, want))


class GhostParam:

    def __init__(self, name, settable):
        self.short_name = name
        self.is_settable = settable


class GhostCodingObject:

    def __init__(self, name):
        self.short_name = name
        self.parameters = [GhostParam("sid", False), GhostParam("value", True)]


class GhostMessage:

    def __init__(self, name):
        self.coding_object = GhostCodingObject(name)
        self.param_dict = {"sid": 0x22, "value": 5}


class GhostDiagLayer:
    """DiagLayer as handle_telegram uses it: decode() / decode_response() return a non-empty list of interpretations
    or raise DecodeError (their contract, property C06)"""

    def __init__(self, request_known, response_count):
        self.request_known = request_known
        self.response_count = response_count

    def decode(self, payload):
        if not self.request_known:
            raise DecodeError("ghost: no service matches")
        return [GhostMessage("request")]

    def decode_response(self, payload, request):
        if self.response_count == 0:
            raise DecodeError("ghost: no response matches")
        return [GhostMessage(f"response{i}") for i in range(self.response_count)]


@harness(props=["C13"], strength="B",
         family=lambda t, s: [{"direction": d, "request_known": k, "responses": n, "had_request": h}
                              for d in ("tester", "ecu") for k in (False, True) for n in (0, 1, 2)
                              for h in (False, True) if not (d == "tester" and (n != 0 or h))],
         bound="telegram payload of 0..8 arbitrary bytes; the layer's answers enumerated (unknown / known request, 0..2 "
         "matching responses)",
         functions=[snoop.handle_telegram, uds.is_response_pending], covers=["handled"], assumes=["A-lib"],
         crosscheck=False)
def telegram_handling_is_total(direction, request_known, responses, had_request):
    """handle_telegram never raises, whatever the telegram holds and whatever the layer makes of it"""
    payload = H.bytes("payload", 0, 8)
    H.set_global(snoop, "odx_diag_layer", GhostDiagLayer(request_known, responses))
    H.set_global(snoop, "ecu_rx_id", 0x7E0)
    H.set_global(snoop, "ecu_tx_id", 0x7E8)
    H.set_global(snoop, "last_request", b"\x22\x01" if had_request else None)
    try:
        snoop.handle_telegram(0x7E8 if direction == "ecu" else 0x7E0, payload)
    except Exception:
        H.check("C13:never-raises", False)
        return
    H.cover("handled")
    H.check("C13:never-raises", True)


# the decoder class snoop really uses: IsoTpStateMachine with overridden error hooks
from odxtools.isotp_state_machine import IsoTpActiveDecoder, IsoTpStateMachine  # noqa: E402
from spec import isotp as S  # noqa: E402
from contracts import isotp as IT  # noqa: E402


@harness(props=["C13", "C12"], strength="P", family=lambda t, s: [{"state": st} for st in ("idle", "in-progress")],
         functions=[snoop.init_verbose_state_machine, IsoTpStateMachine.decode_rx_frame],
         covers=["reported", "silent"], assumes=["A-bitstruct", "A-lib"], crosscheck=False)
def verbose_decoder_never_raises(state):
    """the informative decoder of the snoop tool processes every frame (0..64 arbitrary bytes) in every cell state
    without raising and reports what the step specification reports"""
    rx = H.int("id", 0, 0x1FFFFFFF)
    sm = snoop.init_verbose_state_machine(IsoTpStateMachine, [rx])
    if state == "in-progress":
        sm._telegram_data[0] = H.bytearray("buf", 0, 4200)
    sm._telegram_specified_len[0] = H.int("announced", 0, 4095)
    sm._telegram_last_rx_fragment_idx[0] = H.int("lastseq", 0, 15)
    cell = (None if sm._telegram_data[0] is None else H.snapshot(sm._telegram_data[0]),
            sm._telegram_specified_len[0], sm._telegram_last_rx_fragment_idx[0])
    data = H.bytes("data", 0, 64)
    try:
        out = list(sm.decode_rx_frame(rx, data))
    except Exception:
        H.check("C13:never-raises", False)
        return
    new_cell, outputs, event = S.step(cell, data)
    H.cover("reported" if outputs else "silent")
    H.check("C13:never-raises", True)
    H.check("C12,C13:reports-what-the-step-specification-reports",
            H.And(len(out) == len(outputs), all([H.eq(o[1], so) for (o, so) in zip(out, outputs)])))
    # the informative hooks only print: the reassembly state afterwards is the one the step specification prescribes
    H.check("C12:cell-as-spec", IT._cell_eq(sm._telegram_data[0], sm._telegram_specified_len[0],
                                             sm._telegram_last_rx_fragment_idx[0], new_cell))



# ... and over a real DiagLayer (its prefix tree, candidate search and DiagService.decode_message are the library's;
# only the coding objects are the ghosts of contracts/attribution.py)
from contracts import attribution as AT  # noqa: E402
from odxtools.diaglayers.diaglayer import DiagLayer  # noqa: E402


@harness(props=["C13"], strength="B", family=lambda t, s: [{"direction": d} for d in ("tester", "ecu")],
         bound="telegram payload of 0..2 arbitrary bytes; one service with request, positive and negative response whose "
         "constant prefixes and decoding outcomes are symbolic",
         functions=[snoop.handle_telegram, DiagLayer.decode, DiagLayer.decode_response, DiagLayer._find_services_for_uds],
         covers=["handled"], assumes=["A-lib"], crosscheck=False)
def telegram_handling_over_a_real_layer_is_total(direction):
    """handle_telegram never raises for any telegram - the empty one included - when the layer is a real DiagLayer"""
    layer = DiagLayer.__new__(DiagLayer)
    raw = AT.GhostRaw()
    raw.services = [AT.mk_service(0, True)]
    layer.diag_layer_raw = raw
    payload = H.bytes("payload", 0, 2)
    H.set_global(snoop, "odx_diag_layer", layer)
    H.set_global(snoop, "ecu_rx_id", 0x7E0)
    H.set_global(snoop, "ecu_tx_id", 0x7E8)
    H.set_global(snoop, "last_request", b"\x10\x01" if direction == "ecu" else None)
    try:
        snoop.handle_telegram(0x7E8 if direction == "ecu" else 0x7E0, payload)
    except Exception:
        H.check("C13:never-raises", False)
        return
    H.cover("handled")
    H.check("C13:never-raises", True)


# ... and over a real DiagLayer whose one service carries a real description of contracts/endtoend.py: everything
# below handle_telegram - prefix tree, DiagService.decode_message, Request/Response.decode, the parameter, DOP and
# diag-coded-type classes - is the library's
from contracts import build as B  # noqa: E402
from contracts import endtoend as E  # noqa: E402
from odxtools.diagservice import DiagService  # noqa: E402
from odxtools.request import Request  # noqa: E402

REAL_CODINGS = ["sid+u8", "bitpos-spill", "table-key+struct", "multiplexer", "leading-length-bytes",
                "minmax-hexff+const", "dtc", "length-key-uint"]


def _real_family(tier, seed):
    names = REAL_CODINGS if tier == "quick" else [d for d in E.DESCRIPTIONS if d not in E.DECODE_SKIP]
    return [{"desc": d} for d in names]


@harness(props=["C13"], strength="B", family=_real_family,
         bound="telegram payload of 0..6 arbitrary bytes; the layer has one service whose request or positive response "
         "is one of the concrete descriptions of contracts/endtoend.py (8 of them in the quick tier, all in the "
         "thorough tier)",
         functions=[snoop.handle_telegram, DiagLayer.decode, DiagLayer.decode_response, DiagLayer._find_services_for_uds,
                    DiagService.decode_message] + E.FUNCTIONS,
         covers=["handled"], assumes=["A-bitstruct", "A-lib"], crosscheck=False,
         limits={"max_paths": 40000, "task_timeout": 1500, "sym_for_unroll": 12}, use_contracts=["bcd"])
def telegram_handling_with_real_descriptions_is_total(desc):
    """handle_telegram never raises for any telegram when request and response are real descriptions: a telegram the
    description cannot decode (cut short, unknown key, ...) is reported as unrecognised"""
    codec, specs, trigger = E.DESCRIPTIONS[desc]()
    svc = DiagService.__new__(DiagService)
    svc.short_name = "svc"
    is_request = isinstance(codec, Request)
    plain = B.request([B.coded_const("sid", 0x22, 0)])
    svc._request = codec if is_request else plain
    svc._positive_responses = [] if is_request else [codec]
    svc._negative_responses = []
    layer = DiagLayer.__new__(DiagLayer)
    raw = AT.GhostRaw()
    raw.services = [svc]
    layer.diag_layer_raw = raw
    payload = H.bytes("payload", 0, 6)
    H.set_global(snoop, "odx_diag_layer", layer)
    H.set_global(snoop, "ecu_rx_id", 0x7E0)
    H.set_global(snoop, "ecu_tx_id", 0x7E8)
    H.set_global(snoop, "last_request", None if is_request else b"\x22")
    try:
        snoop.handle_telegram(0x7E0 if is_request else 0x7E8, payload)
    except Exception:
        H.check("C13:never-raises", False)
        return
    H.cover("handled")
    H.check("C13:never-raises", True)


# ---------------------------------------------------------------------------------------------------------------
# Without --rx/--tx the snoop tool takes the CAN IDs from the diagnostic layer (get_can_receive_id / get_can_send_id on
# the layer's communication parameters after inheritance) and builds its reassembler for them.  The telegrams it then
# reports are those sent on the IDs of the closest definition.
from contracts import hierarchy as HY  # noqa: E402
from odxtools.complexcomparam import ComplexComparam  # noqa: E402
from odxtools.diaglayers.hierarchyelement import HierarchyElement  # noqa: E402
from odxtools.nameditemlist import NamedItemList  # noqa: E402

_ID_TABLE = {"pr": ("123", "456"), "fg": ("1697", "1705"), "bv": ("2016", "2024")}


@harness(props=["C12", "C15"], strength="B", family=lambda t, s: [{"shape": "bv-fg+pr"}],
         bound="a base variant with a protocol and a functional group as parents; per layer the presence of a "
         "CP_UniqueRespIdTable definition is symbolic; one single frame per candidate ID",
         functions=[HierarchyElement._compute_available_commmunication_parameters, HierarchyElement.get_can_receive_id,
                    HierarchyElement.get_can_send_id, snoop.init_verbose_state_machine,
                    IsoTpStateMachine.decode_rx_frame],
         covers=["ids"], assumes=["A-bitstruct", "A-lib"], crosscheck=False)
def reassembler_listens_on_the_ids_of_the_closest_definition(shape):
    """the reassembler the snoop tool derives from a description reports the telegrams sent on the CAN IDs of the
    layer's own response-ID table, else of its highest-priority parent defining one - and nothing sent on the IDs of
    an overridden definition"""
    layers = {name: HY.GhostLayer(name, kind) for name, kind, parents in HY.CP_SHAPES[shape]}
    spec = HY.mk_spec("CP_UniqueRespIdTable", None, ComplexComparam)
    spec.subparams = NamedItemList([HY.mk_spec("CP_CanPhysReqId", "0"), HY.mk_spec("CP_CanRespUSDTId", "0")])
    defines = {}
    for name, kind, parents in HY.CP_SHAPES[shape]:
        defines[name] = H.bool(f"{name}_defines_the_response_id_table")
        if defines[name]:
            layers[name].diag_layer_raw.comparam_refs.append(HY.mk_instance(spec, "ID_T", list(_ID_TABLE[name]), None))
        for p in parents:
            layers[name].diag_layer_raw.parent_refs.append(HY.GhostParentRef(layers[p], []))
    bv = layers["bv"]
    bv._comparam_refs = NamedItemList(bv._compute_available_commmunication_parameters())
    rx, tx = bv.get_can_receive_id(), bv.get_can_send_id()
    winner = "bv" if defines["bv"] else "fg" if defines["fg"] else "pr" if defines["pr"] else None
    H.check("C12,C15:ids-are-those-of-the-closest-definition",
            (rx, tx) == ((None, None) if winner is None else (int(_ID_TABLE[winner][0]), int(_ID_TABLE[winner][1]))))
    if rx is None or tx is None:
        return
    H.cover("ids")
    sm = snoop.init_verbose_state_machine(IsoTpStateMachine, [rx, tx])  # (as passive_main does)
    payload = H.bytes("payload", 1, 7)
    for name in ("pr", "fg", "bv"):
        for can_id in _ID_TABLE[name]:
            out = list(sm.decode_rx_frame(int(can_id), bytes([len(payload)]) + bytes(payload)))
            if name == winner:
                H.check("C12:telegrams-on-the-ids-of-the-description-are-reported",
                        H.And(len(out) == 1, all([H.eq(o[1], payload) for o in out])))
            else:
                H.check("C12:frames-of-unrelated-ids-are-ignored", len(out) == 0)
