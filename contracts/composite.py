# Composite codecs (codec.py, Parameter position handling, BasicStructure/Structure, Request, Response) verified by a
# paired harness: the real encoder and then the real decoder run over ABSTRACT children that obey the Codec interface
# contract (DESIGN 4.1).  An abstract child records a ghost token (context it was encoded in, value, bytes it
# advanced) and, when decoded, demands to be visited in exactly that context.  Positions, origins, sizes, BYTE-SIZE and
# values are all symbolic (P); the number of children is unrolled (B(k)).
import odxtools.exceptions as X
from odxtools.basicstructure import BasicStructure
from odxtools.codec import (composite_codec_decode_from_pdu, composite_codec_encode_into_pdu,
                            composite_codec_get_static_bit_length)
from odxtools.decodestate import DecodeState
from odxtools.encodestate import EncodeState
from odxtools.exceptions import DecodeError, EncodeError, OdxError
from odxtools.nameditemlist import NamedItemList
from odxtools.odxlink import DocType, OdxDocFragment, OdxLinkId
from odxtools.parameters.parameter import Parameter
from odxtools.request import Request
from odxtools.response import Response, ResponseType
from odxtools.structure import Structure
from pyvc.api import H
from pyvc.registry import harness

DOC_FRAGS = [OdxDocFragment("Verif", DocType.CONTAINER)]


class AbstractParam(Parameter):
    """Any parameter kind, through the Codec interface contract.  Parameter.encode_into_pdu / decode_from_pdu (the
    real, @final position handling) are inherited and therefore under verification."""

    def setup(self, idx, static_len, required, settable, default):
        self.idx = idx
        self.static_len = static_len  # None or a symbolic bit length
        self.required = required
        self.settable = settable
        self.default = default
        self.token = None
        self.decoded = 0

    def get_static_bit_length(self):
        return self.static_len

    @property
    def is_required(self):
        return self.required

    @property
    def is_settable(self):
        return self.settable

    def _encode_positioned_into_pdu(self, physical_value, encode_state):
        H.check("enc:child-entered-with-well-formed-state",
                H.And(len(encode_state.coded_message) == len(encode_state.used_mask),
                      0 <= encode_state.cursor_bit_position, encode_state.cursor_bit_position <= 7,
                      0 <= encode_state.origin_byte_position,
                      encode_state.origin_byte_position <= encode_state.cursor_byte_position))
        if physical_value is None:
            if self.required:
                raise EncodeError("abstract child: required value missing")
            physical_value = self.default
        adv = H.fresh_int(f"adv{self.idx}")
        H.assume(adv >= 0)
        if self.static_len is not None:
            H.assume(adv == H.div(encode_state.cursor_bit_position + self.static_len + 7, 8))
        self.token = (encode_state.origin_byte_position, encode_state.cursor_byte_position,
                      encode_state.cursor_bit_position, encode_state.is_end_of_pdu, physical_value, adv)
        # like every real leaf: claim the bytes (zero-extending the PDU) and advance the cursor
        encode_state.cursor_bit_position = 0
        encode_state.emplace_bytes(bytes(adv))

    def _decode_positioned_from_pdu(self, decode_state):
        self.decoded += 1
        origin, cursor, bitpos, eop, value, adv = self.token
        H.check("C01:decoder-visits-each-child-at-the-encoders-origin-cursor-and-bit-position",
                H.And(decode_state.origin_byte_position == origin, decode_state.cursor_byte_position == cursor,
                      decode_state.cursor_bit_position == bitpos))
        if decode_state.cursor_byte_position + adv > len(decode_state.coded_message):
            raise DecodeError("abstract child: PDU too short")
        decode_state.cursor_byte_position += adv
        return value


def _make_params(k):
    params = []
    for i in range(k):
        byte_position = H.int(f"bytepos{i}", 0) if H.bool(f"has_bytepos{i}") else None
        # BIT-POSITION None and 0 are interchangeable (every use in the code under contract is `bit_position or 0`)
        bit_position = H.int(f"bitpos{i}", 0, 7)
        p = AbstractParam(short_name=f"p{i}", long_name=None, description=None, oid=None, byte_position=byte_position,
                          bit_position=bit_position, semantic=None, sdgs=[])
        static_len = H.int(f"static{i}", 0, 4096) if H.bool(f"is_static{i}") else None
        required = H.bool(f"required{i}")
        p.setup(i, static_len, required, True, H.int(f"default{i}"))
        params.append(p)
    return params


def _values(params):
    values, expected = {}, {}
    for p in params:
        given = True if p.required is True else H.bool(f"given{p.idx}")
        v = H.int(f"v{p.idx}")
        if given:
            values[p.short_name] = v
            expected[p.short_name] = v
        else:
            expected[p.short_name] = p.default
    return values, expected


def _fam(tier, seed):
    out = [{"kind": kind, "k": k} for kind in ("request", "response", "structure", "structure_bytesize")
           for k in (0, 1)]
    out += [{"kind": "request", "k": 2}, {"kind": "structure", "k": 2}]
    if tier == "thorough":
        out += [{"kind": "response", "k": 2}, {"kind": "structure_bytesize", "k": 2}, {"kind": "request", "k": 3}]
    return out


def _make_codec(kind, params):
    odx_id = OdxLinkId("verif.codec", DOC_FRAGS)
    plist = NamedItemList(params)
    if kind == "request":
        return Request(odx_id=odx_id, oid=None, short_name="codec", long_name=None, description=None,
                       admin_data=None, parameters=plist, sdgs=[])
    if kind == "response":
        return Response(odx_id=odx_id, oid=None, short_name="codec", long_name=None, description=None,
                        admin_data=None, parameters=plist, sdgs=[], response_type=ResponseType.POSITIVE)
    byte_size = H.int("byte_size", 0) if kind == "structure_bytesize" else None
    return Structure(odx_id=odx_id, oid=None, short_name="codec", long_name=None, description=None,
                     admin_data=None, sdgs=[], parameters=plist, byte_size=byte_size, is_visible_raw=None)


@harness(props=["C01", "C04", "C08"], strength="B", family=_fam,
         bound="number of parameters of the composite unrolled: 0..2 (quick) / up to 3 (thorough); every position, size, "
         "origin, BYTE-SIZE, value, presence of optional attributes symbolic",
         functions=[composite_codec_encode_into_pdu, composite_codec_decode_from_pdu,
                    composite_codec_get_static_bit_length, Parameter.encode_into_pdu, Parameter.decode_from_pdu,
                    BasicStructure.encode_into_pdu, BasicStructure.decode_from_pdu,
                    BasicStructure.get_static_bit_length, Request.encode, Request.decode, Request.encode_into_pdu,
                    Request.decode_from_pdu, Response.encode, Response.decode, EncodeState.emplace_bytes],
         covers=["encoded", "rejected"], assumes=["A-compose"],
         limits={"max_paths": 60000, "task_timeout": 1500})
def composite_roundtrip(kind, k):
    """real composite encoder then real composite decoder over abstract children: same visits at the same positions,
    same values back, whole PDU consumed, static length and BYTE-SIZE honoured; only odxtools errors on rejection"""
    params = _make_params(k)
    codec = _make_codec(kind, params)
    values, expected = _values(params)
    if kind in ("request", "response"):
        try:
            pdu = codec.encode(**values)
        except OdxError:
            H.cover("rejected")
            H.check("C04:encode-rejects-only-if-a-required-value-is-missing",
                    H.Or([H.And(p.required, p.short_name not in values) for p in params]))
            return
        H.cover("encoded")
        start = 0
        appended = True
        try:
            result = codec.decode(bytes(pdu))
        except OdxError:
            H.check("C01:decoding-the-own-encoding-succeeds", False)
            return
        end_of_pdu = len(pdu)
        consumed_all = None
    else:
        msg = H.bytearray("pdu_before")
        msg0 = H.snapshot(msg)
        cur = H.int("cursor", 0)
        origin = H.int("origin", 0)
        H.assume(H.And(origin <= cur, len(msg) <= cur))
        es = EncodeState(coded_message=msg, used_mask=bytearray(bytes(len(msg))), origin_byte_position=origin,
                         cursor_byte_position=cur, is_end_of_pdu=H.bool("is_end_of_pdu"))
        try:
            codec.encode_into_pdu(values, es)
        except OdxError:
            H.cover("rejected")
            return
        H.cover("encoded")
        H.check("C01:structure-restores-the-origin", es.origin_byte_position == origin)
        H.check("C01:structure-leaves-bit-position-zero", es.cursor_bit_position == 0)
        pdu = es.coded_message
        ds = DecodeState(coded_message=bytes(pdu), origin_byte_position=origin, cursor_byte_position=cur)
        try:
            result = codec.decode_from_pdu(ds)
        except OdxError:
            H.check("C01:decoding-the-own-encoding-succeeds", False)
            return
        H.check("C01:decoder-ends-where-the-encoder-ended",
                H.And(ds.cursor_byte_position == es.cursor_byte_position, ds.origin_byte_position == origin))
        if kind == "structure_bytesize":
            H.check("C01,C08:byte-size-structure-occupies-exactly-byte-size-bytes",
                    H.And(es.cursor_byte_position == cur + codec.byte_size,
                          H.Or(codec.byte_size == 0, len(pdu) >= cur + codec.byte_size)))
        start = cur
        appended = len(msg0) == cur
    H.check("C01:every-child-decoded-exactly-once", H.And([p.decoded == 1 for p in params]))
    H.check("C01:decoded-values-are-the-encoded-values", H.eq(result, expected))
    if kind in ("request", "response"):
        ends = [p.token[1] + p.token[5] for p in params]
        H.check("C01:pdu-ends-with-the-last-byte-any-child-claimed",
                H.And([len(pdu) >= e for e in ends] + [H.Or([len(pdu) == e for e in ends] + [len(pdu) == 0])]))
    # C08: a reported static bit length is the size of every encoding
    static = codec.get_static_bit_length()
    if static is not None:
        # (a BYTE-SIZE structure whose explicitly positioned children reach beyond BYTE-SIZE is an ill-formed
        # description and outside the envelope)
        inside = True if kind != "structure_bytesize" else H.And(
            [p.token[1] + p.token[5] <= start + codec.byte_size for p in params])
        # (stated for an object appended at the end of the PDU: then the growth of the PDU is the size of the object)
        H.check("C08:static-bit-length-is-the-encoded-size",
                H.implies(H.And(inside, appended), 8 * (len(pdu) - start) == static))
    H.check("C08:static-length-is-known-iff-all-children-are-static",
            (static is not None) == (all(p.static_len is not None for p in params) or
                                     (kind == "structure_bytesize")))
