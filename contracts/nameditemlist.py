# Contracts for odxtools/nameditemlist.py (property C16)
#
# Representation invariant I(nil) of a NamedItemList (list view L, name view D = nil._item_dict):
#   |L| = |D|; the values of D are exactly the items of L (as objects, with multiplicity) - so every position has
#   exactly one name and no name refers to an item that is not in the list; every key is the item's short name made
#   identifier-safe (prefix "_" for digit-leading names and keywords) and unique (suffix _<i> / <i>, i >= 2); no key is
#   an attribute of the list class or instance; name lookups (nil[key], getattr(nil, key), keys/values/items) agree
#   with D.
# Each public operation is verified as: any state satisfying I (built directly, not through the code)  --op-->  state
# satisfying I whose list view is what `list` does for the same operation.  Invariant + per-operation proof gives the
# property for every history.  Items and names range over an alphabet containing every special class of name
# (duplicates, generated-name collisions, keywords, digit-leading, method names, trailing underscore, equal-but-
# distinct items); the size of the pre-state is bounded (B).
import copy
import os
import pickle
from dataclasses import dataclass
from keyword import iskeyword

from odxtools.nameditemlist import ItemAttributeList, NamedItemList
from pyvc.api import H
from pyvc.registry import harness

NAMES = ["a", "a_2", "b_", "class", "1x", "append", "keys"]
SMALL_NAMES = ["a", "a_2", "class"]
MID_NAMES = ["a", "a_2", "class", "b_"]
_COUNTER = [0]


@dataclass
class Item:
    short_name: str
    payload: int = 0


def base_key(sn):
    return "_" + sn if (sn[0].isdigit() or iskeyword(sn)) else sn


def valid_key(key, item):
    base = base_key(item.short_name)
    if not key.isidentifier() or iskeyword(key):
        return False
    if key == base:
        return True
    if not key.startswith(base):
        return False
    rest = key[len(base):]
    if not base.endswith("_"):
        if not rest.startswith("_"):
            return False
        rest = rest[1:]
    return rest.isdigit() and int(rest) >= 2 and str(int(rest)) == rest


FORBIDDEN = set(dir(NamedItemList)) | {"_item_dict"}


def invariant(nil):
    D = nil._item_dict
    L = [x for x in list.__iter__(nil)]
    ok_len = len(D) == len(L)
    ok_bij = sorted([id(x) for x in L]) == sorted([id(v) for v in D.values()])
    ok_keys = all([valid_key(k, v) for k, v in D.items()])
    ok_noshadow = all([k not in FORBIDDEN for k in D.keys()])
    ok_lookup = all([(nil[k] is v) and (getattr(nil, k) is v) for k, v in D.items()])
    ok_views = list(nil.keys()) == list(D.keys()) and [id(v) for v in nil.values()] == [id(v) for v in D.values()]
    return [("C16:as-many-names-as-items", ok_len), ("C16:names-and-positions-correspond-one-to-one", ok_bij),
            ("C16:every-name-is-the-unique-identifier-safe-short-name", ok_keys),
            ("C16:names-never-shadow-attributes-of-the-list", ok_noshadow),
            ("C16:lookup-by-key-and-attribute-agree-with-the-name-view", ok_lookup),
            ("C16:keys-values-items-views-agree", ok_views)]


def check_invariant(nil, tag):
    for name, ok in invariant(nil):
        H.check(name + "[" + tag + "]", ok)


def pick_item(tag, pool, names=None):
    """a fresh item with a picked name (unequal to every other item), or an existing object of the pool (the same
    object again / an equal twin, i.e. a distinct object that compares equal)"""
    kind = H.pick(f"{tag}_kind", ["fresh", "same-object", "equal-twin"] if pool else ["fresh"])
    if kind == "fresh":
        _COUNTER[0] += 1
        return Item(H.pick(f"{tag}_name", names or NAMES), 1000 + _COUNTER[0])
    other = H.pick(f"{tag}_of", pool)
    if kind == "same-object":
        return other
    return Item(other.short_name, other.payload)


def arbitrary_state(n):
    """any NamedItemList state satisfying I with n items: keys are chosen, not computed by the code under test"""
    nil = NamedItemList()
    items = []
    for i in range(n):
        items.append(pick_item(f"pre{i}", items, SMALL_NAMES if n > 2 else (MID_NAMES if n == 2 else None)))
    D = {}
    order = H.pick("dict_order", ["list-order", "reversed"]) if n > 1 else "list-order"
    for it in (items if order == "list-order" else list(reversed(items))):
        base = base_key(it.short_name)
        sep = "" if base.endswith("_") else "_"
        cands = [base, base + sep + "2", base + sep + "3"]
        cands = [c for c in cands if c not in D and c not in FORBIDDEN]
        D[H.pick(f"key_{len(D)}", cands)] = it
    for it in items:
        list.append(nil, it)
    nil._item_dict = D
    for name, ok in invariant(nil):
        H.assume(ok)
    return nil, items


OPS = ["append", "insert", "extend", "remove", "pop", "clear", "copy", "copy.copy", "deepcopy", "pickle", "init"]


def _fam(tier, seed):
    if tier == "quick":
        # n = 2 only where two pre-existing items matter for the operation (about 1.5 min per task)
        return [{"op": op, "n": n} for op in OPS for n in (0, 1)] + \
            [{"op": op, "n": 2} for op in ("remove", "pop", "insert", "copy", "deepcopy", "pickle", "init")]
    return [{"op": op, "n": n} for op in OPS for n in (0, 1, 2, 3) if not (n == 3 and op in ("extend", "insert", "append"))]


@harness(props=["C16"], strength="B", family=_fam,
         bound="pre-state: any invariant-satisfying list of 0..2 (quick) / 0..3 (thorough) items over a 7-name alphabet "
         "that contains every special class of short name, items may be the same object or equal twins",
         functions=[ItemAttributeList.__init__, ItemAttributeList.append, ItemAttributeList._add_attribute_item,
                    ItemAttributeList.insert, ItemAttributeList.remove, ItemAttributeList.pop,
                    ItemAttributeList.extend, ItemAttributeList.clear, ItemAttributeList.copy,
                    ItemAttributeList.__copy__, ItemAttributeList.__deepcopy__, ItemAttributeList.__reduce__,
                    ItemAttributeList.__getitem__, ItemAttributeList.__getattr__, NamedItemList._get_item_key],
         limits={"max_paths": 200000, "task_timeout": 1500})
def operation_preserves_invariant(op, n):
    """any state satisfying I --op--> state satisfying I, with the list effect of the `list` operation of that name"""
    nil, items = arbitrary_state(n)
    model = list(items)  # what a plain list would hold
    other = None
    argnames = None if n < 2 else SMALL_NAMES
    if op == "append":
        x = pick_item("x", items, argnames)
        nil.append(x)
        model.append(x)
    elif op == "insert":
        x = pick_item("x", items, argnames)
        idx = H.pick("index", sorted(set([-n - 1, -1, 0, 1, n, n + 1])))
        nil.insert(idx, x)
        model.insert(idx, x)
    elif op == "extend":
        xs = [pick_item("x0", items, argnames)]
        if n < 2 and H.pick("two", [False, True]):
            xs.append(pick_item("x1", items + xs))
        if H.pick("as_iterator", [False, True]):
            nil.extend(iter(xs))  # a one-shot iterable, as list.extend accepts
        else:
            nil.extend(xs)
        model.extend(xs)
    elif op == "remove":
        if n == 0:
            return
        x = pick_item("x", items, argnames)
        try:
            nil.remove(x)
        except ValueError:
            H.check("C16:remove-raises-only-if-no-equal-item", not any([y == x for y in model]))
            check_invariant(nil, "after-failed-remove")
            return
        model.remove(x)
    elif op == "pop":
        if n == 0:
            return
        idx = H.pick("index", list(range(-n, n)))
        r = nil.pop(idx)
        H.check("C16:pop-returns-the-item-at-the-index", r is model.pop(idx))
    elif op == "clear":
        nil.clear()
        model.clear()
    elif op == "copy":
        other = nil.copy()
    elif op == "copy.copy":
        other = copy.copy(nil)
    elif op == "deepcopy":
        other = copy.deepcopy(nil)
    elif op == "pickle":
        other = pickle.loads(pickle.dumps(nil))
    elif op == "init":
        other = NamedItemList(list(model))
    check_invariant(nil, "receiver")
    H.check("C16:list-view-holds-the-items-in-order",
            [id(x) for x in list.__iter__(nil)] == [id(x) for x in model])
    if other is not None:
        H.check("C16:copy-is-a-nameditemlist", type(other) is NamedItemList)
        check_invariant(other, "copy")
        if op in ("deepcopy", "pickle"):
            H.check("C16:copy-holds-equal-items-in-order",
                    [(x.short_name, x.payload) for x in list.__iter__(other)] ==
                    [(x.short_name, x.payload) for x in model])
        else:
            H.check("C16:copy-holds-the-same-items-in-order",
                    [id(x) for x in list.__iter__(other)] == [id(x) for x in model])
        # the copy is independent: changing it does not disturb the original
        other.append(Item("zz", 9))
        check_invariant(nil, "original-after-copy-was-changed")
        H.check("C16:original-unchanged-by-changes-to-the-copy",
                [id(x) for x in list.__iter__(nil)] == [id(x) for x in model])


# two item lists are equal iff they hold equal items in the same order (value inheritance compares objects that contain
# such lists to decide whether same-named objects of two parents clash)
@harness(props=["C16", "C09"], strength="B", family=lambda t, s: [{"n": n} for n in (1, 2)],
         bound="lists of 1..2 concrete items", functions=[NamedItemList.__init__, NamedItemList.__eq__],
         covers=["done"], crosscheck=False)
def equality_is_item_equality(n):
    """NamedItemList equality follows the items, not just their names"""
    a = NamedItemList([Item(f"i{k}", 10 + k) for k in range(n)])
    same = NamedItemList([Item(f"i{k}", 10 + k) for k in range(n)])
    other = NamedItemList([Item(f"i{k}", 10 + k + (1 if k == n - 1 else 0)) for k in range(n)])
    shorter = NamedItemList([Item(f"i{k}", 10 + k) for k in range(n - 1)])
    H.cover("done")
    H.check("C09,C16:lists-of-equal-items-are-equal", H.And(a == same, not (a != same)))
    H.check("C09,C16:lists-with-a-differing-item-of-the-same-name-are-unequal", H.And(not (a == other), a != other))
    H.check("C09,C16:lists-of-different-length-are-unequal", not (a == shorter))


# ---- frame obligation (syntactic, over the working tree): a named item list is only changed through the operations
# ---- that are under contract
import ast  # noqa: E402

from pyvc import static_checks  # noqa: E402
from pyvc.static_checks import repo_py_files, static  # noqa: E402

_INHERITED_MUTATORS = ("__iadd__", "__imul__", "__setitem__", "__delitem__", "sort", "reverse")


def _terminal_name(node):
    if isinstance(node, ast.Attribute):
        return node.attr
    if isinstance(node, ast.Name):
        return node.id
    return None


def _mentions_named_list(node):
    """the expression denotes the class itself (`NamedItemList`, `NamedItemList[T]`, `Optional[NamedItemList[T]]`),
    not a container of named lists"""
    if isinstance(node, ast.Name):
        return node.id in ("NamedItemList", "ItemAttributeList")
    if isinstance(node, ast.Subscript):
        if isinstance(node.value, ast.Name) and node.value.id == "Optional":
            return _mentions_named_list(node.slice)
        return _mentions_named_list(node.value)
    if isinstance(node, ast.Constant) and isinstance(node.value, str):
        return node.value.startswith(("NamedItemList", "ItemAttributeList"))
    return False


def _named_list_names(trees):
    """Names under which the package holds named item lists: targets assigned from NamedItemList(...), names and
    fields annotated NamedItemList[...], properties and functions declared to return one."""
    names = set()
    for tree in trees.values():
        for n in ast.walk(tree):
            if isinstance(n, ast.Assign) and isinstance(n.value, ast.Call) and _mentions_named_list(n.value.func):
                names.update(filter(None, (_terminal_name(t) for t in n.targets)))
            elif isinstance(n, ast.AnnAssign) and _mentions_named_list(n.annotation):
                names.add(_terminal_name(n.target))
            elif isinstance(n, (ast.FunctionDef, ast.AsyncFunctionDef)) and _mentions_named_list(n.returns):
                names.add(n.name)
    names.discard(None)
    return names


@static("C16")
def named_lists_are_changed_only_through_contracted_operations(tier):
    """One obligation per module of odxtools/**: the list operations that ItemAttributeList inherits from `list`
    without keeping the name view (`+=`, `*=`, item and slice assignment, `del x[i]`, sort, reverse) are not applied to
    anything the package holds as a named item list.  The per-operation contracts only speak about append, insert,
    extend, remove, pop, clear and the copies; this is their frame.  An operation that the class overrides is not
    flagged (its contract would then be the place to judge it)."""
    trees = {p: ast.parse(open(p).read()) for p in repo_py_files()}
    overridden = set()
    for p, tree in trees.items():
        if p.endswith("nameditemlist.py"):
            for n in ast.walk(tree):
                if isinstance(n, ast.ClassDef) and n.name == "ItemAttributeList":
                    overridden = {f.name for f in n.body if isinstance(f, ast.FunctionDef)}
    unsafe = [m for m in _INHERITED_MUTATORS if m not in overridden]
    names = _named_list_names(trees)
    out = []
    for p, tree in trees.items():
        rel = os.path.relpath(p, static_checks.REPO)
        bad = []
        for n in ast.walk(tree):
            if isinstance(n, ast.AugAssign) and _terminal_name(n.target) in names:
                op = "__iadd__" if isinstance(n.op, ast.Add) else "__imul__" if isinstance(n.op, ast.Mult) else None
                if op in unsafe:
                    bad.append((n.lineno, f"{_terminal_name(n.target)} {op}"))
            elif isinstance(n, ast.AugAssign) and isinstance(n.target, ast.Subscript) and \
                    _terminal_name(n.target.value) in names and "__setitem__" in unsafe:
                bad.append((n.lineno, f"{_terminal_name(n.target.value)}[...] augmented"))
            elif isinstance(n, (ast.Assign, ast.Delete)):
                for t in n.targets:
                    if isinstance(t, ast.Subscript) and _terminal_name(t.value) in names:
                        op = "__setitem__" if isinstance(n, ast.Assign) else "__delitem__"
                        if op in unsafe:
                            bad.append((n.lineno, f"{_terminal_name(t.value)}[...] {op}"))
            elif isinstance(n, ast.Call) and isinstance(n.func, ast.Attribute) and n.func.attr in unsafe and \
                    _terminal_name(n.func.value) in names:
                bad.append((n.lineno, f"{_terminal_name(n.func.value)}.{n.func.attr}()"))
        out.append({"name": f"C16_named-lists-changed-only-through-contracted-operations[{rel}]", "ok": not bad,
                    "detail": "; ".join(f"line {ln}: {w}" for ln, w in bad)})
    return out
