import os
from pyvc import static_checks
# Contracts for odxtools/exceptions.py (property C17) and the reads-frame obligation for the strict_mode flag
import ast
import warnings

import odxtools.exceptions as X
from odxtools.exceptions import DecodeError, EncodeError, OdxError, odxassert, odxraise, odxrequire
from pyvc.api import H
from pyvc.registry import harness
from pyvc.static_checks import repo_py_files, static

_ERR = {"OdxError": OdxError, "EncodeError": EncodeError, "DecodeError": DecodeError, "RuntimeError": RuntimeError,
        "KeyError": KeyError}


def _fam(tier, seed):
    return [{"err": e, "has_msg": m} for e in _ERR for m in (False, True)]


@harness(props=["C17"], strength="P", family=_fam, functions=[odxraise], covers=["raised", "returned"])
def odxraise_contract(err, has_msg):
    """odxraise: strict => raises exactly error_type; non-strict => returns (never raises); flag read at call time"""
    strict = H.bool("strict")
    H.set_global(X, "strict_mode", strict)
    et = _ERR[err]
    try:
        if has_msg:
            odxraise("msg", et)
        else:
            odxraise(None, et)
    except Exception as ex:
        H.cover("raised")
        H.check("raises-only-in-strict-mode", strict)
        H.check("raises-the-requested-error-type", type(ex) is et)
        return
    H.cover("returned")
    H.check("returns-only-in-lenient-mode", H.Not(strict))


@harness(props=["C17"], strength="P", family=_fam, functions=[odxassert, odxraise], covers=["raised", "returned"])
def odxassert_contract(err, has_msg):
    """odxassert: raises error_type iff strict and the condition is false; otherwise returns None"""
    strict = H.bool("strict")
    cond = H.bool("cond")
    H.set_global(X, "strict_mode", strict)
    et = _ERR[err]
    try:
        r = odxassert(cond, "msg" if has_msg else None, et)
    except Exception as ex:
        H.cover("raised")
        H.check("raises-iff-strict-and-condition-false", H.And(strict, H.Not(cond)))
        H.check("raises-the-requested-error-type", type(ex) is et)
        return
    H.cover("returned")
    H.check("returns-iff-condition-true-or-lenient", H.Or(cond, H.Not(strict)))
    H.check("returns-none", r is None)


@harness(props=["C17"], strength="P", family=lambda t, s: [{"present": True}, {"present": False}],
         functions=[odxrequire, odxraise], covers=["raised", "returned"])
def odxrequire_contract(present):
    """odxrequire: returns its argument unchanged; raises OdxError iff strict and the argument is None"""
    strict = H.bool("strict")
    H.set_global(X, "strict_mode", strict)
    obj = ("some", "object") if present else None
    try:
        r = odxrequire(obj, "msg")
    except Exception as ex:
        H.cover("raised")
        H.check("raises-iff-strict-and-none", H.And(strict, obj is None))
        H.check("raises-odxerror", type(ex) is OdxError)
        return
    H.cover("returned")
    H.check("returns-the-object", r is obj)
    H.check("returns-iff-present-or-lenient", H.Or(obj is not None, H.Not(strict)))


@harness(props=["C17"], strength="P", functions=[odxraise, odxassert], covers=["flip"])
def switching_takes_effect_immediately():
    """flag flipped between two calls: each call obeys the value at its own call time (no caching)"""
    s1 = H.bool("s1")
    s2 = H.bool("s2")
    outcomes = []
    for s in (s1, s2, s1):
        H.set_global(X, "strict_mode", s)
        try:
            odxassert(False, "problem")
            outcomes.append(False)
        except OdxError:
            outcomes.append(True)
    H.cover("flip")
    H.check("each-call-obeys-current-flag",
            H.And(H.eq(outcomes[0], s1), H.eq(outcomes[1], s2), H.eq(outcomes[2], s1)))


# ---- reads-frame obligation (syntactic, over the working tree): the flag is never copied at import time
@static("C17")
def strict_mode_reads_frame(tier):
    """One obligation per module of odxtools/**: `strict_mode` is not imported by value (from .exceptions import
    strict_mode makes an import-time copy that later switches do not reach), and every other mention outside
    exceptions.py is an attribute access <module>.strict_mode evaluated inside a function body (call time)."""
    out = []
    for path in repo_py_files():
        rel = os.path.relpath(path, static_checks.REPO)
        if rel == "odxtools/exceptions.py":
            continue
        tree = ast.parse(open(path).read())
        bad = []
        funcs_spans = [(n.lineno, n.end_lineno) for n in ast.walk(tree)
                       if isinstance(n, (ast.FunctionDef, ast.AsyncFunctionDef, ast.Lambda))]
        for n in ast.walk(tree):
            if isinstance(n, ast.ImportFrom) and any(a.name == "strict_mode" for a in n.names):
                bad.append(f"{rel}:{n.lineno}: from-import copies strict_mode at import time")
            elif isinstance(n, ast.Name) and n.id == "strict_mode":
                bad.append(f"{rel}:{n.lineno}: bare name strict_mode (a module-local copy)")
            elif isinstance(n, ast.Attribute) and n.attr == "strict_mode":
                if not any(a <= n.lineno <= b for a, b in funcs_spans):
                    bad.append(f"{rel}:{n.lineno}: strict_mode read at module level (import time)")
        out.append({"name": f"reads-frame[{rel}]", "ok": not bad, "detail": bad or "no by-value use of strict_mode"})
    return out


# ---------------------------------------------------------------------------------------------------------------
# switching at run time: a problem that is an error in strict mode is downgraded in lenient mode, and re-enabling
# strict mode restores the error (no part of the library may remember the lenient outcome)
from odxtools.decodestate import DecodeState  # noqa: E402
from odxtools.encodestate import EncodeState  # noqa: E402
from odxtools.encoding import Encoding, get_string_encoding  # noqa: E402
from contracts import build as B  # noqa: E402
from odxtools.compumethods.compuconst import CompuConst  # noqa: E402
from odxtools.compumethods.compuinternaltophys import CompuInternalToPhys  # noqa: E402
from odxtools.compumethods.compumethod import CompuCategory  # noqa: E402
from odxtools.compumethods.compuscale import CompuScale  # noqa: E402
from odxtools.compumethods.limit import IntervalType, Limit  # noqa: E402
from odxtools.compumethods.texttablecompumethod import TexttableCompuMethod  # noqa: E402
from odxtools.odxlink import DocType, OdxDocFragment, OdxLinkDatabase, OdxLinkRef, resolve_snref  # noqa: E402
from odxtools.odxtypes import DataType  # noqa: E402

_FR = [OdxDocFragment("doc", DocType.CONTAINER)]


# (problems = conditions the library reports through odxraise/odxassert/odxrequire; unconditional raise statements such
# as 'Expected a longer message' or an invalid physical value are errors in both modes and are not listed)
# every problem is a factory: the objects it works on are created once and shared by all calls of the returned
# operation, so a part of the library that remembers the outcome of an earlier call (a cache) is noticed
def _p_illegal_string_encoding():
    return lambda: get_string_encoding(DataType.A_UTF8STRING, Encoding.BCD_P, True)


def _p_illegal_int_encoding_encode():
    def op():
        es = EncodeState()
        es.emplace_atomic_value(internal_value=1, bit_length=8, base_data_type=DataType.A_UINT32,
                                base_type_encoding=Encoding.ONEC, is_highlow_byte_order=True, used_mask=None)
        return bytes(es.coded_message)
    return op


def _p_illegal_int_encoding_decode():
    def op():
        ds = DecodeState(coded_message=b"\x01")
        return ds.extract_atomic_value(bit_length=8, base_data_type=DataType.A_UINT32,
                                       base_type_encoding=Encoding.SM, is_highlow_byte_order=True)
    return op


def _p_illegal_string_decode():
    def op():
        ds = DecodeState(coded_message=b"ab")
        return ds.extract_atomic_value(bit_length=16, base_data_type=DataType.A_ASCIISTRING,
                                       base_type_encoding=Encoding.BCD_UP, is_highlow_byte_order=True)
    return op


def _p_dangling_reference():
    db = OdxLinkDatabase()
    return lambda: db.resolve(OdxLinkRef("nope", _FR))


def _p_require_none():
    return lambda: odxrequire(None)


def _p_value_out_of_range():
    def op():
        es = EncodeState()
        es.emplace_atomic_value(internal_value=300, bit_length=8, base_data_type=DataType.A_UINT32,
                                base_type_encoding=None, is_highlow_byte_order=True, used_mask=None)
        return bytes(es.coded_message)
    return op


def _texttable(texts):
    scales = [CompuScale(short_label=None, description=None,
                         lower_limit=Limit(value_raw=str(i), value_type=DataType.A_UINT32,
                                           interval_type=IntervalType.CLOSED),
                         upper_limit=Limit(value_raw=str(i), value_type=DataType.A_UINT32,
                                           interval_type=IntervalType.CLOSED),
                         compu_inverse_value=None,
                         compu_const=CompuConst(v=None, vt=t, data_type=DataType.A_UNICODE2STRING),
                         compu_rational_coeffs=None, domain_type=DataType.A_UINT32,
                         range_type=DataType.A_UNICODE2STRING) for i, t in enumerate(texts)]
    return TexttableCompuMethod(category=CompuCategory.TEXTTABLE,
                                compu_internal_to_phys=CompuInternalToPhys(compu_scales=scales, prog_code=None,
                                                                           compu_default_value=None),
                                compu_phys_to_internal=None, physical_type=DataType.A_UNICODE2STRING,
                                internal_type=DataType.A_UINT32)


def _p_texttable_ambiguous_text():
    cm = _texttable(["on", "reserved", "reserved"])
    return lambda: cm.convert_physical_to_internal("reserved")


def _p_texttable_unknown_text():
    cm = _texttable(["on", "off"])
    return lambda: cm.convert_physical_to_internal("standby")


def _p_request_value_out_of_range():
    rq = B.request([B.coded_const("sid", 0x22, 0), B.value_param("v", B.dop("u8", 8), 1)])
    return lambda: bytes(rq.encode(v=300))


def _p_constant_that_does_not_fit():
    rq = B.request([B.coded_const("sid", 0x1FF, 0, 8), B.value_param("v", B.dop("u8", 8), 1)])
    return lambda: bytes(rq.coded_const_prefix())


def _p_illegal_boolean_text():
    from odxtools.odxtypes import odxstr_to_bool
    return lambda: odxstr_to_bool("yes")


def _p_ambiguous_snref():
    items = [Named("t"), Named("t")]
    return lambda: resolve_snref("t", items)


class Named:

    def __init__(self, short_name):
        self.short_name = short_name


def _p_undescribed_trouble_code():
    # one DTC-DOP object decodes a trouble code its description does not list - again and again
    from contracts import build as B
    d = B.dtc_dop("dtcs_sm", [B.dtc(0x1234, "P1234")])
    B.response([B.coded_const("sid", 0x59, 0), B.value_param("code", d)], "resp_sm")  # (resolves the references)
    return lambda: d.decode_from_pdu(DecodeState(coded_message=b"\x77\x77"))


def _p_unknown_dtc_name():
    from contracts import build as B
    d = B.dtc_dop("dtcs_sm2", [B.dtc(0x1234, "P1234")])
    B.response([B.coded_const("sid", 0x59, 0), B.value_param("code", d)], "resp_sm2")
    return lambda: d.convert_to_numerical_trouble_code("P9999")


PROBLEMS = {
    "illegal-string-encoding": _p_illegal_string_encoding,
    "illegal-int-encoding-encode": _p_illegal_int_encoding_encode,
    "illegal-int-encoding-decode": _p_illegal_int_encoding_decode,
    "illegal-string-encoding-decode": _p_illegal_string_decode,
    "dangling-reference": _p_dangling_reference,
    "required-object-missing": _p_require_none,
    "value-out-of-range": _p_value_out_of_range,
    "texttable-ambiguous-text": _p_texttable_ambiguous_text,
    "texttable-unknown-text": _p_texttable_unknown_text,
    "request-value-out-of-range": _p_request_value_out_of_range,
    "ambiguous-snref": _p_ambiguous_snref,
    "constant-that-does-not-fit": _p_constant_that_does_not_fit,
    "illegal-boolean-text": _p_illegal_boolean_text,
    "undescribed-trouble-code": _p_undescribed_trouble_code,
    "unknown-dtc-name": _p_unknown_dtc_name,
}


@harness(props=["C17"], strength="E",
         family=lambda t, s: [{"problem": p, "order": o} for p in PROBLEMS
                              for o in ("lenient-strict-lenient", "strict-lenient-strict")],
         functions=[odxraise, odxassert, get_string_encoding], covers=["done"], crosscheck=False)
def restoring_strict_mode_restores_the_error(problem, order):
    """for a problematic operation: error in strict mode, no error in lenient mode, whatever mode was active before -
    the outcome of a call depends only on the flag at the time of that call"""
    op = PROBLEMS[problem]()
    outcomes = []
    for mode in order.split("-"):
        H.set_global(X, "strict_mode", mode == "strict")
        try:
            with warnings.catch_warnings():
                warnings.simplefilter("ignore")
                op()
            outcomes.append((mode, "returned"))
        except OdxError:
            outcomes.append((mode, "error"))
        except KeyError:
            outcomes.append((mode, "error"))
    H.cover("done")
    H.check("C17:problem-is-an-error-in-strict-mode-whatever-came-before",
            all([res == "error" for (mode, res) in outcomes if mode == "strict"]))
    H.check("C17:problem-is-downgraded-in-lenient-mode-whatever-came-before",
            all([res == "returned" for (mode, res) in outcomes if mode == "lenient"]))
