# Contracts for odxtools/compumethods (properties C07, C03)
import odxtools.exceptions as X
from odxtools.compumethods.compuinternaltophys import CompuInternalToPhys
from odxtools.compumethods.compumethod import CompuCategory
from odxtools.compumethods.compurationalcoeffs import CompuRationalCoeffs
from odxtools.compumethods.compuscale import CompuScale
from odxtools.compumethods.limit import IntervalType, Limit
from odxtools.compumethods.linearcompumethod import LinearCompuMethod
from odxtools.compumethods.linearsegment import LinearSegment
from odxtools.exceptions import DecodeError, EncodeError, OdxError
from odxtools.odxtypes import DataType, compare_odx_values
from pyvc.api import H
from pyvc.registry import harness
from spec import compu as S

KINDS = (None, "CLOSED", "OPEN", "INFINITE")  # None: no INTERVAL-TYPE attribute (= CLOSED); limit may also be absent


def number(name, dt):
    """a symbolic value stored for data type dt (coefficients and limits are read with that type)"""
    return H.int(name) if dt in S.INT_TYPES else H.real(name)


def make_limit(name, dt, kind):
    """kind: 'absent' | None | 'CLOSED' | 'OPEN' | 'INFINITE'; returns (Limit or None, symbolic value or None)"""
    if kind == "absent":
        return None, None
    v = number(name, dt)
    return Limit(value_raw=str(v), value_type=DataType[dt], interval_type=None if kind is None else IntervalType[kind]), v


def _linear_family(tier, seed):
    out = []
    pairs = [("A_UINT32", "A_UINT32"), ("A_INT32", "A_FLOAT64"), ("A_FLOAT64", "A_INT32"), ("A_FLOAT32", "A_FLOAT32"),
             ("A_INT32", "A_INT32")]
    limit_kinds = [("absent", "absent"), (None, None), ("OPEN", "CLOSED"), ("CLOSED", "OPEN"), ("INFINITE", "CLOSED"),
                   ("CLOSED", "absent"), ("absent", "OPEN")]
    if tier == "thorough":
        pairs = [(a, b) for a in ("A_UINT32", "A_INT32", "A_FLOAT32", "A_FLOAT64")
                 for b in ("A_UINT32", "A_INT32", "A_FLOAT32", "A_FLOAT64")]
        limit_kinds = [(a, b) for a in ("absent",) + KINDS for b in ("absent",) + KINDS]
    for it, pt in pairs:
        for lk, uk in limit_kinds:
            for has_denominator in (False, True):
                for vkind in ("int", "float"):
                    out.append({"it": it, "pt": pt, "lk": lk, "uk": uk, "has_den": has_denominator, "vkind": vkind})
    return out


def _make_linear(it, pt, lk, uk, has_den):
    offset = number("offset", pt)
    if pt in S.INT_TYPES:
        # integer coefficients: slope and denominator range over a small set (E) - products of two unknown integers
        # under rounding are beyond the solver; offset, limits and the value stay symbolic
        factor = H.pick("factor", [0, 1, -1, 2, -3, 10])
        den = H.pick("denominator", [1, -1, 2, 3, -10]) if has_den else None
    else:
        factor = number("factor", pt)
        den = number("denominator", pt) if has_den else None
    if den is not None:
        H.assume(den != 0)
    lower, lo = make_limit("lower", it, lk)
    upper, up = make_limit("upper", it, uk)
    if lo is not None and up is not None:
        H.assume(lo <= up)
    coeffs = CompuRationalCoeffs(value_type=DataType[pt], numerators=[offset, factor],
                                 denominators=[] if den is None else [den])
    scale = CompuScale(short_label=None, description=None, lower_limit=lower, upper_limit=upper,
                       compu_inverse_value=None, compu_const=None, compu_rational_coeffs=coeffs,
                       domain_type=DataType[it], range_type=DataType[pt])
    cm = LinearCompuMethod(category=CompuCategory.LINEAR,
                           compu_internal_to_phys=CompuInternalToPhys(compu_scales=[scale], prog_code=None,
                                                                      compu_default_value=None),
                           compu_phys_to_internal=None, physical_type=DataType[pt], internal_type=DataType[it])
    return cm, offset, factor, (1 if den is None else den), lo, up


@harness(props=["C07", "C03"], strength="E", family=_linear_family,
         functions=[LinearCompuMethod.__post_init__, LinearCompuMethod.convert_internal_to_physical,
                    LinearCompuMethod.convert_physical_to_internal, LinearCompuMethod.is_valid_internal_value,
                    LinearCompuMethod.is_valid_physical_value, LinearSegment.from_compu_scale,
                    LinearSegment.convert_internal_to_physical, LinearSegment.convert_physical_to_internal,
                    LinearSegment.internal_applies, LinearSegment.physical_applies,
                    LinearSegment._LinearSegment__compute_physical_limits, Limit.complies_to_lower,
                    Limit.complies_to_upper, Limit.set_value_type, compare_odx_values],
         covers=["valid", "invalid"], assumes=["A-float"], crosscheck=False)
def linear_method(it, pt, lk, uk, has_den, vkind):
    """LINEAR: validity = admissible type and inside the limits (OPEN/CLOSED/INFINITE honoured); internal->physical =
    (offset + factor x)/denominator exactly (nearest integer for integer physical types); the physical image of a valid
    internal value is valid and converts back to it when the conversion is injective; valid physical values convert
    without error"""
    cm, offset, factor, den, lo, up = _make_linear(it, pt, lk, uk, has_den)
    x = H.int("x") if vkind == "int" else H.real("x")
    lkind = "CLOSED" if lk is None else lk
    ukind = "CLOSED" if uk is None else uk
    spec_valid = H.And(S.type_admits(it, vkind), S.within(x, lo, lkind, up, ukind))
    H.check("C07:internal-validity-is-admissible-type-and-inside-the-limits",
            H.eq(cm.is_valid_internal_value(x), spec_valid))
    try:
        y = cm.convert_internal_to_physical(x)
    except DecodeError:
        H.cover("invalid")
        H.check("C07:only-invalid-internal-values-are-rejected", H.Not(spec_valid))
        return
    H.cover("valid")
    H.check("C07:only-invalid-internal-values-are-rejected", spec_valid)
    exact = S.linear(offset, factor, den, x)
    if pt in S.INT_TYPES:
        H.check("C07,C03:integer-physical-value-is-the-nearest-integer-of-the-exact-formula", S.is_nearest_integer(y, exact))
    else:
        H.check("C07:physical-value-is-the-exact-formula", y == exact)
    # injective conversions: the image is declared valid and converts back.  Premise (from the property): real
    # physical type, or integer physical and internal types with a slope of magnitude at least one; with Python's
    # round-half-even a slope of magnitude exactly one is not injective where the exact value is a tie (k + 1/2), so the
    # premise excludes exactly those points.
    if pt in S.FLOAT_TYPES:
        premise = factor != 0
    elif it in S.INT_TYPES:
        tie = H.And(H.is_integer(2 * exact), H.Not(H.is_integer(exact)))
        premise = H.And(factor != 0, den * den <= factor * factor, H.Not(H.And(den * den == factor * factor, tie)))
    else:
        return
    H.check("C07,C03:image-of-a-valid-internal-value-is-a-valid-physical-value",
            H.implies(premise, cm.is_valid_physical_value(y)))
    H.assume(premise)
    H.assume(cm.is_valid_physical_value(y))
    try:
        x2 = cm.convert_physical_to_internal(y)
    except OdxError:
        H.check("C07:valid-physical-values-convert-without-error", False)
        return
    H.check("C07:valid-physical-values-convert-without-error", True)
    H.check("C07,C03:physical-image-converts-back-to-the-internal-value", x2 == x)


# ------------------------------------------------------------------------------------------------- SCALE-LINEAR
from odxtools.compumethods.scalelinearcompumethod import ScaleLinearCompuMethod  # noqa: E402
from odxtools.compumethods.tabintpcompumethod import TabIntpCompuMethod  # noqa: E402
from odxtools.compumethods.compuconst import CompuConst  # noqa: E402


def _scale_family(tier, seed):
    out = []
    for k in ((1, 2) if tier == "quick" else (1, 2, 3, 4)):
        for it, pt in (("A_INT32", "A_FLOAT64"), ("A_FLOAT64", "A_FLOAT64")):
            for boundary in ("closed-closed", "closed-open"):
                out.append({"k": k, "it": it, "pt": pt, "boundary": boundary, "history": False})
            if k == 2:
                # the same object used before for another value: the conversion is a function of its argument only
                out.append({"k": k, "it": it, "pt": pt, "boundary": "closed-closed", "history": True})
    return out


@harness(props=["C07", "C03"], strength="B", family=_scale_family,
         bound="1..2 (quick) / 1..4 (thorough) scales; real coefficients, limits and values symbolic",
         functions=[ScaleLinearCompuMethod.__post_init__, ScaleLinearCompuMethod.convert_internal_to_physical,
                    ScaleLinearCompuMethod.convert_physical_to_internal,
                    ScaleLinearCompuMethod.is_valid_internal_value, ScaleLinearCompuMethod.is_valid_physical_value],
         covers=["valid", "invalid"], assumes=["A-float"], crosscheck=False)
def scale_linear_method(k, it, pt, boundary, history):
    """SCALE-LINEAR: value of the first scale whose interval contains x; valid iff some interval contains x; a monotone
    continuous method can always encode and converts back"""
    bounds = [number(f"b{i}", it) for i in range(k + 1)]
    for i in range(k):
        H.assume(bounds[i] < bounds[i + 1])
    scales, coeffs = [], []
    for i in range(k):
        offset, factor = H.real(f"offset{i}"), H.real(f"factor{i}")
        coeffs.append((offset, factor))
        upper_kind = IntervalType.CLOSED if (boundary == "closed-closed" or i == k - 1) else IntervalType.OPEN
        scales.append(CompuScale(
            short_label=None, description=None,
            lower_limit=Limit(value_raw=str(bounds[i]), value_type=DataType[it], interval_type=IntervalType.CLOSED),
            upper_limit=Limit(value_raw=str(bounds[i + 1]), value_type=DataType[it], interval_type=upper_kind),
            compu_inverse_value=None, compu_const=None,
            compu_rational_coeffs=CompuRationalCoeffs(value_type=DataType[pt], numerators=[offset, factor],
                                                      denominators=[]),
            domain_type=DataType[it], range_type=DataType[pt]))
    cm = ScaleLinearCompuMethod(category=CompuCategory.SCALE_LINEAR,
                                compu_internal_to_phys=CompuInternalToPhys(compu_scales=scales, prog_code=None,
                                                                           compu_default_value=None),
                                compu_phys_to_internal=None, physical_type=DataType[pt], internal_type=DataType[it])
    x = number("x", it)
    inside = [H.And(bounds[i] <= x, (x <= bounds[i + 1]) if (boundary == "closed-closed" or i == k - 1) else
                    (x < bounds[i + 1])) for i in range(k)]
    spec_valid = H.Or(inside)
    H.check("C07:internal-validity-is-membership-in-some-scale", H.eq(cm.is_valid_internal_value(x), spec_valid))
    if history:
        try:
            cm.convert_internal_to_physical(number("x_before", it))
        except DecodeError:
            pass
    try:
        y = cm.convert_internal_to_physical(x)
    except DecodeError:
        H.cover("invalid")
        H.check("C07:only-invalid-internal-values-are-rejected", H.Not(spec_valid))
        return
    H.cover("valid")
    H.check("C07:only-invalid-internal-values-are-rejected", spec_valid)
    exact = None
    for i in reversed(range(k)):
        e_i = coeffs[i][0] + coeffs[i][1] * x
        exact = e_i if exact is None else H.ite(inside[i], e_i, exact)
    H.check("C07:physical-value-is-the-formula-of-the-first-applicable-scale", y == exact)
    # monotone (all slopes of one sign, none zero) and continuous at the shared boundaries
    same_sign = H.Or(H.And([c[1] > 0 for c in coeffs]), H.And([c[1] < 0 for c in coeffs]))
    continuous = H.And([coeffs[i][0] + coeffs[i][1] * bounds[i + 1] == coeffs[i + 1][0] + coeffs[i + 1][1] * bounds[i + 1]
                        for i in range(k - 1)])
    H.assume(H.And(same_sign, continuous))
    H.check("C07:image-of-a-valid-internal-value-is-a-valid-physical-value", cm.is_valid_physical_value(y))
    try:
        x2 = cm.convert_physical_to_internal(y)
    except OdxError:
        H.check("C07:a-monotone-continuous-piecewise-linear-method-can-always-encode", False)
        return
    H.check("C07:a-monotone-continuous-piecewise-linear-method-can-always-encode", True)
    H.check("C07,C03:physical-image-converts-back-to-the-internal-value", x2 == x)


# ------------------------------------------------------------------------------------------------- TAB-INTP
def _tab_family(tier, seed):
    out = []
    for k in ((2, 3) if tier == "quick" else (2, 3, 4)):
        for it, pt in (("A_INT32", "A_FLOAT64"), ("A_FLOAT64", "A_INT32"), ("A_INT32", "A_INT32")):
            out.append({"k": k, "it": it, "pt": pt})
    return out


@harness(props=["C07", "C03"], strength="B", family=_tab_family,
         bound="interpolation tables of 2..3 (quick) / 2..4 (thorough) points; points and values symbolic",
         functions=[TabIntpCompuMethod.__post_init__, TabIntpCompuMethod.convert_internal_to_physical,
                    TabIntpCompuMethod.convert_physical_to_internal, TabIntpCompuMethod.is_valid_internal_value,
                    TabIntpCompuMethod.is_valid_physical_value,
                    TabIntpCompuMethod._TabIntpCompuMethod__piecewise_linear_interpolate],
         covers=["valid", "invalid"], assumes=["A-float"], crosscheck=False)
def tab_intp_method(k, it, pt):
    """TAB-INTP: linear interpolation between the table points (nearest integer for integer physical types); valid iff
    inside the table; every valid physical value of a monotone table converts without error"""
    xs = [number(f"xp{i}", it) for i in range(k)]
    ys = [number(f"yp{i}", pt) for i in range(k)]
    for i in range(k - 1):
        H.assume(xs[i] < xs[i + 1])
    scales = [CompuScale(short_label=None, description=None,
                         lower_limit=Limit(value_raw=str(xs[i]), value_type=DataType[it],
                                           interval_type=IntervalType.CLOSED),
                         upper_limit=None, compu_inverse_value=None,
                         compu_const=CompuConst(v=str(ys[i]), vt=None, data_type=DataType[pt]),
                         compu_rational_coeffs=None, domain_type=DataType[it], range_type=DataType[pt])
              for i in range(k)]
    cm = TabIntpCompuMethod(category=CompuCategory.TAB_INTP,
                            compu_internal_to_phys=CompuInternalToPhys(compu_scales=scales, prog_code=None,
                                                                       compu_default_value=None),
                            compu_phys_to_internal=None, physical_type=DataType[pt], internal_type=DataType[it])
    x = number("x", it)
    spec_valid = H.And(xs[0] <= x, x <= xs[k - 1])
    H.check("C07:internal-validity-is-being-inside-the-table", H.eq(cm.is_valid_internal_value(x), spec_valid))
    try:
        y = cm.convert_internal_to_physical(x)
    except OdxError:
        H.cover("invalid")
        H.check("C07:only-invalid-internal-values-are-rejected", H.Not(spec_valid))
        return
    H.cover("valid")
    H.check("C07:only-invalid-internal-values-are-rejected", spec_valid)
    exact = None
    for i in reversed(range(k - 1)):
        e_i = ys[i] + (x - xs[i]) * (ys[i + 1] - ys[i]) / (xs[i + 1] - xs[i])
        exact = e_i if exact is None else H.ite(x <= xs[i + 1], e_i, exact)
    if pt in S.INT_TYPES:
        H.check("C07:integer-physical-value-is-the-nearest-integer-of-the-interpolation", S.is_nearest_integer(y, exact))
    else:
        H.check("C07:physical-value-is-the-linear-interpolation", y == exact)
    # monotone tables: every physical value declared valid converts without error
    mono = H.Or(H.And([ys[i] < ys[i + 1] for i in range(k - 1)]), H.And([ys[i] > ys[i + 1] for i in range(k - 1)]))
    H.assume(mono)
    yv = number("y", pt)
    H.assume(cm.is_valid_physical_value(yv))
    try:
        xi = cm.convert_physical_to_internal(yv)
    except OdxError:
        H.check("C07:valid-physical-values-of-a-monotone-table-convert-without-error", False)
        return
    H.check("C07:valid-physical-values-of-a-monotone-table-convert-without-error", True)
    # ... to the inverse interpolation (nearest integer for integer internal types), which makes internal -> physical
    # -> internal the identity for strictly monotone tables with a real-valued physical type
    inv = None
    for i in reversed(range(k - 1)):
        lo = H.ite(ys[i] < ys[i + 1], ys[i], ys[i + 1])
        hi = H.ite(ys[i] < ys[i + 1], ys[i + 1], ys[i])
        e_i = xs[i] + (yv - ys[i]) * (xs[i + 1] - xs[i]) / (ys[i + 1] - ys[i])
        inv = e_i if inv is None else H.ite(H.And(lo <= yv, yv <= hi), e_i, inv)
    if it in S.INT_TYPES:
        H.check("C07,C03:integer-internal-value-is-the-nearest-integer-of-the-inverse-interpolation",
                S.is_nearest_integer(xi, inv))
    else:
        H.check("C07,C03:internal-value-is-the-inverse-interpolation", xi == inv)


# ------------------------------------------------------------------------------------------------- RAT-FUNC
from odxtools.compumethods.compuphystointernal import CompuPhysToInternal  # noqa: E402
from odxtools.compumethods.ratfunccompumethod import RatFuncCompuMethod  # noqa: E402
from odxtools.compumethods.ratfuncsegment import RatFuncSegment  # noqa: E402


def _ratfunc_family(tier, seed):
    out = []
    for it, pt in (("A_INT32", "A_FLOAT64"), ("A_FLOAT64", "A_INT32"), ("A_FLOAT64", "A_FLOAT64")):
        for nnum, nden in ((2, 0), (3, 1), (2, 2)) if tier == "quick" else ((1, 0), (2, 0), (3, 0), (2, 1), (3, 1), (2, 2), (3, 2)):
            for vkind in ("int", "float"):
                out.append({"it": it, "pt": pt, "nnum": nnum, "nden": nden, "vkind": vkind})
    return out


@harness(props=["C07", "C05", "C03"], strength="B", family=_ratfunc_family,
         bound="numerator polynomials with 1..3 coefficients, denominator polynomials with 0..2 coefficients (loops "
         "over the coefficient lists unrolled); coefficients, limits and values symbolic",
         functions=[RatFuncCompuMethod.__post_init__, RatFuncCompuMethod.convert_internal_to_physical,
                    RatFuncCompuMethod.is_valid_internal_value, RatFuncSegment.convert, RatFuncSegment.applies],
         covers=["valid", "invalid"], assumes=["A-float"], crosscheck=False)
def rat_func_method(it, pt, nnum, nden, vkind):
    """RAT-FUNC: internal->physical = numerator polynomial / denominator polynomial exactly (nearest integer for integer
    physical types); validity = admissible internal type and inside the limits; no foreign exception escapes"""
    num = [H.real(f"n{i}") for i in range(nnum)]
    den = [H.real(f"d{i}") for i in range(nden)]
    lo, up = number("lower", it), number("upper", it)
    H.assume(lo <= up)
    scale = CompuScale(short_label=None, description=None,
                       lower_limit=Limit(value_raw=str(lo), value_type=DataType[it], interval_type=IntervalType.CLOSED),
                       upper_limit=Limit(value_raw=str(up), value_type=DataType[it], interval_type=IntervalType.CLOSED),
                       compu_inverse_value=None, compu_const=None,
                       compu_rational_coeffs=CompuRationalCoeffs(value_type=DataType[pt], numerators=num,
                                                                 denominators=den),
                       domain_type=DataType[it], range_type=DataType[pt])
    cm = RatFuncCompuMethod(category=CompuCategory.RAT_FUNC,
                            compu_internal_to_phys=CompuInternalToPhys(compu_scales=[scale], prog_code=None,
                                                                       compu_default_value=None),
                            compu_phys_to_internal=None, physical_type=DataType[pt], internal_type=DataType[it])
    x = H.int("x") if vkind == "int" else H.real("x")
    spec_valid = H.And(S.type_admits(it, vkind), lo <= x, x <= up)
    H.check("C07:internal-validity-is-admissible-type-and-inside-the-limits",
            H.eq(cm.is_valid_internal_value(x), spec_valid))
    p = 0
    for i in reversed(range(nnum)):
        p = p * x + num[i]
    q = 0
    for i in reversed(range(nden)):
        q = q * x + den[i]
    if nden == 0:
        q = 1  # no COMPU-DENOMINATOR: the denominator is one
    try:
        y = cm.convert_internal_to_physical(x)
    except DecodeError:
        H.cover("invalid")
        H.check("C07:only-invalid-internal-values-or-poles-are-rejected", H.Or(H.Not(spec_valid), q == 0))
        return
    except OdxError:
        H.check("C05:decode-side-conversion-errors-are-decode-errors", False)
        return
    except Exception:
        H.check("C05:no-foreign-exception-from-the-conversion", False)
        return
    H.cover("valid")
    H.check("C05:no-foreign-exception-from-the-conversion", True)
    H.check("C07:only-invalid-internal-values-or-poles-are-rejected", spec_valid)
    H.assume(q != 0)
    if pt in S.INT_TYPES:
        H.check("C07,C03:integer-physical-value-is-the-nearest-integer-of-the-exact-formula", S.is_nearest_integer(y, p / q))
    else:
        H.check("C07,C03:physical-value-is-the-exact-rational-function", y == p / q)


# ------------------------------------------------------------------------------------------------- IDENTICAL, TEXTTABLE
from odxtools.compumethods.identicalcompumethod import IdenticalCompuMethod  # noqa: E402
from odxtools.compumethods.texttablecompumethod import TexttableCompuMethod  # noqa: E402

_ADMISSIBLE = {"A_UINT32": ("int", "bool"), "A_INT32": ("int", "bool"), "A_FLOAT32": ("int", "bool", "float"),
               "A_FLOAT64": ("int", "bool", "float"), "A_BYTEFIELD": ("bytes", "bytearray"),
               "A_ASCIISTRING": ("str",), "A_UTF8STRING": ("str",), "A_UNICODE2STRING": ("str",)}


@harness(props=["C07", "C03"], strength="E",
         family=lambda t, s: [{"dt": dt, "kind": k} for dt in _ADMISSIBLE
                              for k in ("int", "bool", "float", "str", "bytes", "bytearray", "none")],
         functions=[IdenticalCompuMethod.convert_internal_to_physical, IdenticalCompuMethod.convert_physical_to_internal,
                    IdenticalCompuMethod.is_valid_internal_value, IdenticalCompuMethod.is_valid_physical_value,
                    DataType.isinstance], covers=["done"], crosscheck=False)
def identical_method(dt, kind):
    """IDENTICAL: both conversions are the identity; a value is valid exactly when its type is admissible"""
    cm = IdenticalCompuMethod(category=CompuCategory.IDENTICAL, compu_internal_to_phys=None,
                              compu_phys_to_internal=None, physical_type=DataType[dt], internal_type=DataType[dt])
    v = H.value_of_kind("v", kind)
    ok = kind in _ADMISSIBLE[dt]
    H.check("C07:identical-validity-is-type-admissibility",
            H.And(H.eq(cm.is_valid_internal_value(v), ok), H.eq(cm.is_valid_physical_value(v), ok)))
    H.check("C07,C03:identical-conversions-are-the-identity",
            H.And(cm.convert_internal_to_physical(v) is v, cm.convert_physical_to_internal(v) is v))
    H.cover("done")


@harness(props=["C07", "C03"], strength="B",
         family=lambda t, s: [{"k": k, "ranges": r, "inverse": False, "upper_kind": "CLOSED"}
                              for k in ((1, 2, 3) if t == "quick" else (1, 2, 3, 4)) for r in (False, True)] +
         [{"k": 2, "ranges": True, "inverse": True, "upper_kind": "CLOSED"}] +
         # the two limits of a scale carry the same value, the upper one is open / unbounded
         [{"k": 1, "ranges": False, "inverse": False, "upper_kind": u} for u in ("OPEN", "INFINITE")],
         bound="text tables of 1..3 (quick) / 1..4 (thorough) scales; limits and values symbolic integers, texts distinct",
         functions=[TexttableCompuMethod.__post_init__, TexttableCompuMethod.convert_internal_to_physical,
                    TexttableCompuMethod.convert_physical_to_internal, TexttableCompuMethod.is_valid_internal_value,
                    TexttableCompuMethod.is_valid_physical_value, CompuScale.applies],
         covers=["valid", "invalid"], crosscheck=False)
def texttable_method(k, ranges, inverse, upper_kind):
    """TEXTTABLE: internal->physical = text of the scale containing the value; valid iff some scale contains it; each
    text converts without error to a value of its own scale, so text -> internal -> text is the identity"""
    los = [H.int(f"lo{i}") for i in range(k)]
    his = [H.int(f"hi{i}") for i in range(k)] if ranges else los
    for i in range(k):
        H.assume(los[i] <= his[i])
    for i in range(k - 1):
        H.assume(his[i] < los[i + 1])  # disjoint scales (overlapping scales are an ill-formed table)
    invs = [H.int(f"inverse{i}") for i in range(k)] if inverse else [None] * k
    for i in range(k):
        if inverse:
            H.assume(H.And(los[i] <= invs[i], invs[i] <= his[i]))  # (COMPU-INVERSE-VALUE lies inside its scale)
    scales = [CompuScale(short_label=None, description=None,
                         lower_limit=Limit(value_raw=str(los[i]), value_type=DataType.A_UINT32,
                                           interval_type=IntervalType.CLOSED),
                         upper_limit=Limit(value_raw=str(his[i]), value_type=DataType.A_UINT32,
                                           interval_type=IntervalType[upper_kind]),
                         compu_inverse_value=None if not inverse else CompuConst(v=str(invs[i]), vt=None,
                                                                                 data_type=DataType.A_INT32),
                         compu_const=CompuConst(v=None, vt=f"text{i}",
                                                                        data_type=DataType.A_UNICODE2STRING),
                         compu_rational_coeffs=None, domain_type=DataType.A_UINT32,
                         range_type=DataType.A_UNICODE2STRING) for i in range(k)]
    cm = TexttableCompuMethod(category=CompuCategory.TEXTTABLE,
                              compu_internal_to_phys=CompuInternalToPhys(compu_scales=scales, prog_code=None,
                                                                         compu_default_value=None),
                              compu_phys_to_internal=None, physical_type=DataType.A_UNICODE2STRING,
                              internal_type=DataType.A_UINT32)
    x = H.int("x")
    inside = [H.And(los[i] <= x, (x <= his[i]) if upper_kind == "CLOSED" else
                    ((x < his[i]) if upper_kind == "OPEN" else True)) for i in range(k)]
    H.check("C07:internal-validity-is-membership-in-some-scale", H.eq(cm.is_valid_internal_value(x), H.Or(inside)))
    if upper_kind != "CLOSED":
        # (the rest of the contract is stated for tables of closed scales)
        H.cover("valid")
        H.cover("invalid")
        return
    try:
        t = cm.convert_internal_to_physical(x)
    except DecodeError:
        H.cover("invalid")
        H.check("C07:only-invalid-internal-values-are-rejected", H.Not(H.Or(inside)))
    else:
        H.cover("valid")
        for i in range(k):
            if t == f"text{i}":
                H.check("C07:physical-value-is-the-text-of-the-scale-containing-the-value", inside[i])
        H.check("C07:physical-value-is-one-of-the-texts", t in [f"text{i}" for i in range(k)])
        H.check("C07:image-of-a-valid-internal-value-is-a-valid-physical-value", cm.is_valid_physical_value(t))
    for i in range(k):
        H.check("C07:every-text-is-a-valid-physical-value", cm.is_valid_physical_value(f"text{i}"))
        try:
            xi = cm.convert_physical_to_internal(f"text{i}")
        except OdxError:
            H.check("C07:valid-physical-values-convert-without-error", False)
            return
        H.check("C07,C03:a-text-converts-to-a-value-of-its-own-scale", H.And(los[i] <= xi, xi <= his[i]))
        if inverse:
            H.check("C07,C03:a-text-converts-to-the-inverse-value-of-its-scale-if-one-is-given", xi == invs[i])
    H.check("C07:unknown-text-is-not-valid", H.Not(cm.is_valid_physical_value("no such text")))


# ------------------------------------------------------------------------------------------------- DataType.from_string
# every limit, table point and constant of the compu methods above enters through DataType.from_string: the parsed value
# is the number the text denotes (a FLOAT32 limit "0.1" must admit the physical value 0.1 - values are Python floats,
# no narrowing to single precision takes place anywhere else in the library)
NUMBER_TEXTS = {
    "A_FLOAT32": ["0.1", "1e-3", "3.14159", "-2.5", "100", "16777217", "0.30000000000000004"],
    "A_FLOAT64": ["0.1", "1e-3", "3.14159", "-2.5", "100", "16777217"],
    "A_INT32": ["-7", "0", "12", "0x10", "3.0"],
    "A_UINT32": ["0", "12", "0x10", "4294967295", "3.0"],
}


@harness(props=["C07", "C03"], strength="E", family=lambda t, s: [{"dt": dt} for dt in NUMBER_TEXTS],
         functions=[DataType.from_string, DataType.make_from], covers=["done"], crosscheck=False)
def number_texts_denote_their_value(dt):
    """DataType.from_string / make_from of a number text is the number the text denotes"""
    for text in NUMBER_TEXTS[dt]:
        want = float(text) if dt in ("A_FLOAT32", "A_FLOAT64") else (int(text, 0) if "." not in text else int(float(text)))
        H.check("C07,C03:parsed-number-is-the-number-the-text-denotes",
                H.And(DataType[dt].from_string(text) == want, DataType[dt].make_from(text) == want))
    lim = Limit(value_raw="0.1", value_type=DataType[dt], interval_type=IntervalType.CLOSED) \
        if dt in ("A_FLOAT32", "A_FLOAT64") else None
    if lim is not None:
        H.check("C07:closed-limit-admits-its-own-value", H.And(lim.complies_to_lower(0.1), lim.complies_to_upper(0.1)))
    H.cover("done")


# ------------------------------------------------------------------------------------------------- scales from XML
# the two directions of a compu method are parsed by CompuInternalToPhys / CompuPhysToInternal: the limits of a scale
# belong to the side the conversion starts from (domain), its coefficients and constants to the side it yields (range)
from xml.etree import ElementTree  # noqa: E402

from odxtools.compumethods.compuphystointernal import CompuPhysToInternal  # noqa: E402

_SCALES_XML = ("<X><COMPU-SCALES><COMPU-SCALE><LOWER-LIMIT>0.5</LOWER-LIMIT><UPPER-LIMIT>7.5</UPPER-LIMIT>"
               "<COMPU-RATIONAL-COEFFS><COMPU-NUMERATOR><V>1</V><V>2</V></COMPU-NUMERATOR></COMPU-RATIONAL-COEFFS>"
               "</COMPU-SCALE></COMPU-SCALES></X>")


@harness(props=["C07"], strength="E", family=lambda t, s: [{"direction": d} for d in ("internal-to-phys", "phys-to-internal")],
         functions=[CompuInternalToPhys.compu_internal_to_phys_from_et, CompuPhysToInternal.compu_phys_to_internal_from_et,
                    CompuScale.compuscale_from_et], covers=["parsed"], crosscheck=False)
def scales_are_parsed_with_the_types_of_their_direction(direction):
    """limits are values of the side a conversion starts from, coefficients of the side it yields"""
    el = ElementTree.fromstring(_SCALES_XML)
    dom, rng = DataType.A_FLOAT64, DataType.A_UINT32
    try:
        if direction == "internal-to-phys":
            r = CompuInternalToPhys.compu_internal_to_phys_from_et(el, [], internal_type=DataType.A_FLOAT64,
                                                                    physical_type=DataType.A_UINT32)
        else:
            r = CompuPhysToInternal.compu_phys_to_internal_from_et(el, [], internal_type=DataType.A_UINT32,
                                                                    physical_type=DataType.A_FLOAT64)
    except OdxError:
        # (a limit 0.5 is no value of an integer type)
        H.check("C07:limits-are-parsed-as-values-of-the-domain-type", False)
        return
    sc = r.compu_scales[0]
    H.cover("parsed")
    H.check("C07:a-scale-has-the-domain-and-range-type-of-its-direction",
            H.And(sc.domain_type == dom, sc.range_type == rng))
    H.check("C07:limits-are-parsed-as-values-of-the-domain-type",
            H.And(sc.lower_limit.value == 0.5, sc.upper_limit.value == 7.5))


# ------------------------------------------------------------------------------------------------- SCALE-RAT-FUNC
# internal -> physical: the rational function of the first scale whose interval contains the value - a function of the
# value only, whatever the object was asked before
from odxtools.compumethods.scaleratfunccompumethod import ScaleRatFuncCompuMethod  # noqa: E402


@harness(props=["C07", "C03"], strength="B", family=lambda t, s: [{"history": h} for h in (False, True)],
         bound="two scales with linear numerators and no denominator sharing a closed boundary; coefficients, limits "
         "and values symbolic reals/integers",
         functions=[ScaleRatFuncCompuMethod.__post_init__, ScaleRatFuncCompuMethod.convert_internal_to_physical,
                    ScaleRatFuncCompuMethod.is_valid_internal_value, RatFuncSegment.convert, RatFuncSegment.applies],
         covers=["valid", "invalid"], assumes=["A-float"], crosscheck=False)
def scale_rat_func_method(history):
    """SCALE-RAT-FUNC: value of the first scale whose interval contains x; valid iff some interval contains x"""
    bounds = [H.int(f"b{i}") for i in range(3)]
    H.assume(H.And(bounds[0] < bounds[1], bounds[1] < bounds[2]))
    coeffs, scales = [], []
    for i in range(2):
        c0, c1 = H.real(f"c0_{i}"), H.real(f"c1_{i}")
        coeffs.append((c0, c1))
        scales.append(CompuScale(
            short_label=None, description=None,
            lower_limit=Limit(value_raw=str(bounds[i]), value_type=DataType.A_INT32, interval_type=IntervalType.CLOSED),
            upper_limit=Limit(value_raw=str(bounds[i + 1]), value_type=DataType.A_INT32,
                              interval_type=IntervalType.CLOSED),
            compu_inverse_value=None, compu_const=None,
            compu_rational_coeffs=CompuRationalCoeffs(value_type=DataType.A_FLOAT64, numerators=[c0, c1],
                                                      denominators=[]),
            domain_type=DataType.A_INT32, range_type=DataType.A_FLOAT64))
    cm = ScaleRatFuncCompuMethod(category=CompuCategory.SCALE_RAT_FUNC,
                                 compu_internal_to_phys=CompuInternalToPhys(compu_scales=scales, prog_code=None,
                                                                            compu_default_value=None),
                                 compu_phys_to_internal=None, physical_type=DataType.A_FLOAT64,
                                 internal_type=DataType.A_INT32)
    x = H.int("x")
    inside = [H.And(bounds[i] <= x, x <= bounds[i + 1]) for i in range(2)]
    H.check("C07:internal-validity-is-membership-in-some-scale", H.eq(cm.is_valid_internal_value(x), H.Or(inside)))
    if history:
        try:
            cm.convert_internal_to_physical(H.int("x_before"))
        except OdxError:
            pass
    try:
        y = cm.convert_internal_to_physical(x)
    except OdxError:
        H.cover("invalid")
        H.check("C07:only-invalid-internal-values-are-rejected", H.Not(H.Or(inside)))
        return
    H.cover("valid")
    H.check("C07:only-invalid-internal-values-are-rejected", H.Or(inside))
    exact = H.ite(inside[0], coeffs[0][0] + coeffs[0][1] * x, coeffs[1][0] + coeffs[1][1] * x)
    H.check("C07:physical-value-is-the-formula-of-the-first-applicable-scale", y == exact)
