# Contracts for odxtools/compumethods (properties C07, C03)
import odxtools.exceptions as X
from odxtools.compumethods.compuinternaltophys import CompuInternalToPhys
from odxtools.compumethods.compumethod import CompuCategory
from odxtools.compumethods.compurationalcoeffs import CompuRationalCoeffs
from odxtools.compumethods.compuscale import CompuScale
from odxtools.compumethods.limit import IntervalType, Limit
from odxtools.compumethods.linearcompumethod import LinearCompuMethod
from odxtools.compumethods.linearsegment import LinearSegment
from odxtools.exceptions import DecodeError, EncodeError, OdxError
from odxtools.odxtypes import DataType, compare_odx_values
from pyvc.api import H
from pyvc.registry import harness
from spec import compu as S

KINDS = (None, "CLOSED", "OPEN", "INFINITE")  # None: no INTERVAL-TYPE attribute (= CLOSED); limit may also be absent


def number(name, dt):
    """a symbolic value stored for data type dt (coefficients and limits are read with that type)"""
    return H.int(name) if dt in S.INT_TYPES else H.real(name)


def make_limit(name, dt, kind):
    """kind: 'absent' | None | 'CLOSED' | 'OPEN' | 'INFINITE'; returns (Limit or None, symbolic value or None)"""
    if kind == "absent":
        return None, None
    v = number(name, dt)
    return Limit(value_raw=str(v), value_type=DataType[dt], interval_type=None if kind is None else IntervalType[kind]), v


def _linear_family(tier, seed):
    out = []
    pairs = [("A_UINT32", "A_UINT32"), ("A_INT32", "A_FLOAT64"), ("A_FLOAT64", "A_INT32"), ("A_FLOAT32", "A_FLOAT32"),
             ("A_INT32", "A_INT32")]
    limit_kinds = [("absent", "absent"), (None, None), ("OPEN", "CLOSED"), ("CLOSED", "OPEN"), ("INFINITE", "CLOSED"),
                   ("CLOSED", "absent"), ("absent", "OPEN")]
    if tier == "thorough":
        pairs = [(a, b) for a in ("A_UINT32", "A_INT32", "A_FLOAT32", "A_FLOAT64")
                 for b in ("A_UINT32", "A_INT32", "A_FLOAT32", "A_FLOAT64")]
        limit_kinds = [(a, b) for a in ("absent",) + KINDS for b in ("absent",) + KINDS]
    for it, pt in pairs:
        for lk, uk in limit_kinds:
            for has_denominator in (False, True):
                for vkind in ("int", "float"):
                    out.append({"it": it, "pt": pt, "lk": lk, "uk": uk, "has_den": has_denominator, "vkind": vkind})
    return out


def _make_linear(it, pt, lk, uk, has_den):
    offset = number("offset", pt)
    if pt in S.INT_TYPES:
        # integer coefficients: slope and denominator range over a small set (E) - products of two unknown integers
        # under rounding are beyond the solver; offset, limits and the value stay symbolic
        factor = H.pick("factor", [0, 1, -1, 2, -3, 10])
        den = H.pick("denominator", [1, -1, 2, 3, -10]) if has_den else None
    else:
        factor = number("factor", pt)
        den = number("denominator", pt) if has_den else None
    if den is not None:
        H.assume(den != 0)
    lower, lo = make_limit("lower", it, lk)
    upper, up = make_limit("upper", it, uk)
    if lo is not None and up is not None:
        H.assume(lo <= up)
    coeffs = CompuRationalCoeffs(value_type=DataType[pt], numerators=[offset, factor],
                                 denominators=[] if den is None else [den])
    scale = CompuScale(short_label=None, description=None, lower_limit=lower, upper_limit=upper,
                       compu_inverse_value=None, compu_const=None, compu_rational_coeffs=coeffs,
                       domain_type=DataType[it], range_type=DataType[pt])
    cm = LinearCompuMethod(category=CompuCategory.LINEAR,
                           compu_internal_to_phys=CompuInternalToPhys(compu_scales=[scale], prog_code=None,
                                                                      compu_default_value=None),
                           compu_phys_to_internal=None, physical_type=DataType[pt], internal_type=DataType[it])
    return cm, offset, factor, (1 if den is None else den), lo, up


@harness(props=["C07", "C03"], strength="E", family=_linear_family,
         functions=[LinearCompuMethod.__post_init__, LinearCompuMethod.convert_internal_to_physical,
                    LinearCompuMethod.convert_physical_to_internal, LinearCompuMethod.is_valid_internal_value,
                    LinearCompuMethod.is_valid_physical_value, LinearSegment.from_compu_scale,
                    LinearSegment.convert_internal_to_physical, LinearSegment.convert_physical_to_internal,
                    LinearSegment.internal_applies, LinearSegment.physical_applies,
                    LinearSegment._LinearSegment__compute_physical_limits, Limit.complies_to_lower,
                    Limit.complies_to_upper, Limit.set_value_type, compare_odx_values],
         covers=["valid", "invalid"], assumes=["A-float"], crosscheck=False)
def linear_method(it, pt, lk, uk, has_den, vkind):
    """LINEAR: validity = admissible type and inside the limits (OPEN/CLOSED/INFINITE honoured); internal->physical =
    (offset + factor x)/denominator exactly (nearest integer for integer physical types); the physical image of a valid
    internal value is valid and converts back to it when the conversion is injective; valid physical values convert
    without error"""
    cm, offset, factor, den, lo, up = _make_linear(it, pt, lk, uk, has_den)
    x = H.int("x") if vkind == "int" else H.real("x")
    lkind = "CLOSED" if lk is None else lk
    ukind = "CLOSED" if uk is None else uk
    spec_valid = H.And(S.type_admits(it, vkind), S.within(x, lo, lkind, up, ukind))
    H.check("C07:internal-validity-is-admissible-type-and-inside-the-limits",
            H.eq(cm.is_valid_internal_value(x), spec_valid))
    try:
        y = cm.convert_internal_to_physical(x)
    except DecodeError:
        H.cover("invalid")
        H.check("C07:only-invalid-internal-values-are-rejected", H.Not(spec_valid))
        return
    H.cover("valid")
    H.check("C07:only-invalid-internal-values-are-rejected", spec_valid)
    exact = S.linear(offset, factor, den, x)
    if pt in S.INT_TYPES:
        H.check("C07:integer-physical-value-is-the-nearest-integer-of-the-exact-formula", S.is_nearest_integer(y, exact))
    else:
        H.check("C07:physical-value-is-the-exact-formula", y == exact)
    # injective conversions: the image is declared valid and converts back.  Premise (from the property): real
    # physical type, or integer physical and internal types with a slope of magnitude at least one; with Python's
    # round-half-even a slope of magnitude exactly one is not injective where the exact value is a tie (k + 1/2), so the
    # premise excludes exactly those points.
    if pt in S.FLOAT_TYPES:
        premise = factor != 0
    elif it in S.INT_TYPES:
        tie = H.And(H.is_integer(2 * exact), H.Not(H.is_integer(exact)))
        premise = H.And(factor != 0, den * den <= factor * factor, H.Not(H.And(den * den == factor * factor, tie)))
    else:
        return
    H.check("C07,C03:image-of-a-valid-internal-value-is-a-valid-physical-value",
            H.implies(premise, cm.is_valid_physical_value(y)))
    H.assume(premise)
    H.assume(cm.is_valid_physical_value(y))
    try:
        x2 = cm.convert_physical_to_internal(y)
    except OdxError:
        H.check("C07:valid-physical-values-convert-without-error", False)
        return
    H.check("C07:valid-physical-values-convert-without-error", True)
    H.check("C07,C03:physical-image-converts-back-to-the-internal-value", x2 == x)
