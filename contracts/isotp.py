# Contracts for odxtools/isotp_state_machine.py (properties C12, C13)
#
#  refines_spec      : per-frame contract T of IsoTpStateMachine.decode_rx_frame with precondition `true`
#                      (any frame bytes, length 0..64, any cell state satisfying the representation invariant):
#                      never raises, output and post-state equal spec.isotp.step on the addressed cell,
#                      every other cell and every frame of an unknown id leave everything unchanged.
#  lemmas (over the spec only) are in contracts/isotp_lemmas.py
from odxtools.isotp_state_machine import IsoTpActiveDecoder, IsoTpStateMachine
from pyvc.api import H
from pyvc.registry import harness
from spec import isotp as S


class GhostBus:
    """stands for can.BusABC: records what is sent (A-lib: can.Message is a record)"""

    def __init__(self):
        self.sent = []

    def send(self, msg):
        self.sent.append(msg)


def _family(tier, seed):
    if tier == "quick":
        return [{"cls": "passive", "nids": 1}, {"cls": "passive", "nids": 2}, {"cls": "active", "nids": 1}]
    return [{"cls": "passive", "nids": 1}, {"cls": "passive", "nids": 2}, {"cls": "passive", "nids": 3},
            {"cls": "active", "nids": 1}, {"cls": "active", "nids": 2}]


def _cell_eq(buf, n, last, spec_cell):
    sbuf, sn, slast = spec_cell
    if sbuf is None:
        return H.And(buf is None, H.eq(n, sn), H.eq(last, slast))
    if buf is None:
        return False
    return H.And(H.eq(buf, sbuf), H.eq(n, sn), H.eq(last, slast))


@harness(props=["C12", "C13"], strength="P", family=_family,
         functions=[IsoTpStateMachine.__init__, IsoTpStateMachine.decode_rx_frame, IsoTpStateMachine.on_single_frame,
                    IsoTpStateMachine.on_first_frame, IsoTpStateMachine.on_consecutive_frame,
                    IsoTpStateMachine.on_flow_control_frame, IsoTpStateMachine.on_sequence_error,
                    IsoTpStateMachine.on_frame_type_error, IsoTpStateMachine.on_telegram_complete,
                    IsoTpActiveDecoder.__init__, IsoTpActiveDecoder.on_single_frame, IsoTpActiveDecoder.on_first_frame,
                    IsoTpActiveDecoder.on_consecutive_frame, IsoTpActiveDecoder._send_can_message],
         covers=["unknown-id", "single", "single-fd", "first", "consecutive", "complete", "sequence-error",
                 "flow-control", "frame-type-error", "ignored-empty", "ignored-short-first",
                 "ignored-stray-consecutive"],
         assumes=["A-bitstruct", "A-lib"])
def refines_spec(cls, nids):
    """decode_rx_frame == spec.isotp.step on the addressed cell, frame condition on all other state, never raises"""
    ids = [H.int(f"id{k}", 0, 0x1FFFFFFF) for k in range(nids)]
    for a in range(nids):
        for b in range(a + 1, nids):
            H.assume(ids[a] != ids[b])
    if cls == "active":
        bus = GhostBus()
        tx_ids = [H.int(f"tx{k}", 0, 0x1FFFFFFF) for k in range(nids)]
        for a in range(nids):
            for b in range(nids):
                H.assume(tx_ids[a] != ids[b])
        pad_size = H.int("pad_size", 0, 12)
        pad_val = H.int("pad_val", 0, 255)
        sm = IsoTpActiveDecoder(bus, list(ids), list(tx_ids), padding_size=pad_size, padding_value=pad_val)
    else:
        bus = None
        sm = IsoTpStateMachine(list(ids))
    # representation invariant established by the real constructor
    H.check("C13:init-establishes-invariant",
            H.And(len(sm._telegram_data) == nids, len(sm._telegram_specified_len) == nids,
                  len(sm._telegram_last_rx_fragment_idx) == nids,
                  H.And([sm._telegram_data[k] is None for k in range(nids)])))
    # any cell state satisfying the invariant
    for k in range(nids):
        if H.bool(f"inprogress{k}"):
            sm._telegram_data[k] = H.bytearray(f"buf{k}", 0, 4200)
        sm._telegram_specified_len[k] = H.int(f"announced{k}", 0, 4095)
        sm._telegram_last_rx_fragment_idx[k] = H.int(f"lastseq{k}", 0, 15)
        if cls == "active":
            # the active decoder's own bookkeeping: any value it can hold
            if H.bool(f"fr_none{k}"):
                sm._frames_received[k] = None
            else:
                sm._frames_received[k] = H.int(f"fr{k}", 0, 100000)
            if H.bool(f"bs_none{k}"):
                sm._block_size[k] = None
            else:
                sm._block_size[k] = 0xFF
    old = [(None if sm._telegram_data[k] is None else H.snapshot(sm._telegram_data[k]),
            sm._telegram_specified_len[k], sm._telegram_last_rx_fragment_idx[k]) for k in range(nids)]
    rx_id = H.int("rx_id", 0, 0x1FFFFFFF)
    data = H.bytes("data", 0, 64)
    try:
        out = list(sm.decode_rx_frame(rx_id, data))
    except Exception as ex:
        H.check("C13:never-raises", False)
        return
    H.check("C13:never-raises", True)
    # which cell is addressed?
    idx = None
    for k in range(nids):
        if idx is None and rx_id == ids[k]:
            idx = k
    for k in range(nids):
        cur = (sm._telegram_data[k], sm._telegram_specified_len[k], sm._telegram_last_rx_fragment_idx[k])
        if k != idx:
            H.check("frame:other-cells-unchanged", _cell_eq(cur[0], cur[1], cur[2], old[k]))
    H.check("C13:invariant-preserved",
            H.And(len(sm._telegram_data) == nids, len(sm._telegram_specified_len) == nids,
                  len(sm._telegram_last_rx_fragment_idx) == nids))
    if idx is None:
        H.cover("unknown-id")
        H.check("unknown-id:no-output", len(out) == 0)
        if cls == "active":
            H.check("C12:unknown-id:nothing-sent", len(bus.sent) == 0)
        return
    new_cell, outputs, event = S.step(old[idx], data)
    H.cover(event)
    H.check("output-count-as-spec", len(out) == len(outputs))
    if len(out) == len(outputs):
        for (o, so) in zip(out, outputs):
            H.check("output-id-is-rx-id", o[0] == rx_id)
            H.check("output-payload-as-spec", H.eq(o[1], so))
    cur = (sm._telegram_data[idx], sm._telegram_specified_len[idx], sm._telegram_last_rx_fragment_idx[idx])
    H.check("cell-as-spec", _cell_eq(cur[0], cur[1], cur[2], new_cell))
    H.check("C13:invariant-preserved-cell",
            H.And(0 <= cur[1], cur[1] <= 4095, 0 <= cur[2], cur[2] <= 15))
    if cls == "active":
        # C12: every first frame is answered by exactly one clear-to-send flow control frame on the paired tx id
        if event == "first":
            H.check("C12:first-frame-answered-once", len(bus.sent) == 1)
            if len(bus.sent) == 1:
                msg = bus.sent[0]
                H.check("C12:flow-control-on-paired-tx-id", msg.arbitration_id == tx_ids[idx])
                payload = msg.data
                H.check("C12:flow-control-is-clear-to-send",
                        H.And(len(payload) >= 3, payload[0] == 0x30, payload[2] == 0x00))
                H.check("C12:flow-control-padding",
                        H.And(len(payload) == H.ite(pad_size > 3, pad_size, 3),
                              H.forall(3, len(payload), lambda j: H.byte_at(payload, j) == pad_val)))
        for msg in bus.sent:
            H.check("C12:only-paired-tx-ids-used", msg.arbitration_id == tx_ids[idx])


def _seq_family(tier, seed):
    if tier == "quick":
        return [{"cls": "passive", "nids": 1, "steps": 2}, {"cls": "passive", "nids": 2, "steps": 2},
                {"cls": "active", "nids": 1, "steps": 2}]
    return [{"cls": "passive", "nids": 1, "steps": 3}, {"cls": "passive", "nids": 2, "steps": 2},
            {"cls": "active", "nids": 1, "steps": 2}]


@harness(props=["C12", "C13"], strength="B", family=_seq_family,
         bound="sequences of 2 (quick) / 3 (thorough) arbitrary frames through the real decode_rx_frame from a freshly "
         "constructed machine with arbitrary reassembly cells: guards the per-frame contract against state that its "
         "representation invariant does not mention (caches, counters added by a change)",
         functions=[IsoTpStateMachine.decode_rx_frame], assumes=["A-bitstruct", "A-lib"],
         limits={"max_paths": 40000, "task_timeout": 1500})
def sequence_refines_spec(cls, nids, steps):
    """k consecutive arbitrary frames: after each one outputs and cells equal the step specification applied in sequence"""
    ids = [H.int(f"id{k}", 0, 0x1FFFFFFF) for k in range(nids)]
    for a in range(nids):
        for b in range(a + 1, nids):
            H.assume(ids[a] != ids[b])
    if cls == "active":
        bus = GhostBus()
        tx_ids = [H.int(f"tx{k}", 0, 0x1FFFFFFF) for k in range(nids)]
        for a in range(nids):
            for b in range(nids):
                H.assume(tx_ids[a] != ids[b])
        sm = IsoTpActiveDecoder(bus, list(ids), list(tx_ids))
    else:
        sm = IsoTpStateMachine(list(ids))
    cells = []
    for k in range(nids):
        if H.bool(f"inprogress{k}"):
            sm._telegram_data[k] = H.bytearray(f"buf{k}", 0, 4200)
        sm._telegram_specified_len[k] = H.int(f"announced{k}", 0, 4095)
        sm._telegram_last_rx_fragment_idx[k] = H.int(f"lastseq{k}", 0, 15)
        cells.append((None if sm._telegram_data[k] is None else H.snapshot(sm._telegram_data[k]),
                      sm._telegram_specified_len[k], sm._telegram_last_rx_fragment_idx[k]))
    for s in range(steps):
        rx_id = H.int(f"rx_id{s}", 0, 0x1FFFFFFF)
        data = H.bytes(f"data{s}", 0, 64)
        sent_before = len(bus.sent) if cls == "active" else 0
        try:
            out = list(sm.decode_rx_frame(rx_id, data))
        except Exception as ex:
            H.check("C13:never-raises", False)
            return
        if cls == "active":
            # every first frame of an observed id is answered by exactly one frame on the paired id, whatever was
            # received before (single frames and full blocks of consecutive frames are acknowledged too, by design)
            k_rx = None
            for k in range(nids):
                if k_rx is None and rx_id == ids[k]:
                    k_rx = k
            is_first = False
            if k_rx is not None:
                is_first = S.step(cells[k_rx], data)[2] == "first"
            if is_first:
                H.check("C12:seq-first-frame-answered-once-whatever-came-before", len(bus.sent) - sent_before == 1)
        idx = None
        for k in range(nids):
            if idx is None and rx_id == ids[k]:
                idx = k
        if idx is None:
            H.check("seq:unknown-id:no-output", len(out) == 0)
        else:
            new_cell, outputs, event = S.step(cells[idx], data)
            H.check("seq:output-count-as-spec", len(out) == len(outputs))
            if len(out) == len(outputs):
                for (o, so) in zip(out, outputs):
                    H.check("seq:output-as-spec", H.And(o[0] == rx_id, H.eq(o[1], so)))
            cells[idx] = new_cell
        for k in range(nids):
            cur = (sm._telegram_data[k], sm._telegram_specified_len[k], sm._telegram_last_rx_fragment_idx[k])
            H.check("seq:cells-as-spec", _cell_eq(cur[0], cur[1], cur[2], cells[k]))
            # the spec cell holds immutable snapshots; re-snapshot the implementation's buffer for the next step
            if cur[0] is not None:
                cells[k] = (H.snapshot(cur[0]), cells[k][1], cells[k][2])


# ------------------------------------------------------------------------------------------------ candump text logs
# read_telegrams() on a text file: every line of the three candump formats is handed to decode_rx_frame as the frame
# (CAN id, data bytes) the line denotes, in file order; nothing else is.  With the per-frame contract above this gives
# "reading the same frames from a log gives the same telegrams".  The regular expressions run natively on concrete
# lines (A-lib: re), the surrounding code is interpreted.
import io  # noqa: E402

LOG_LINES = {
    "candump-classic": ("  vcan0  7E0   [8]  02 10 01 00 00 00 00 00", 0x7E0, "0210010000000000"),
    "candump-classic-short": ("vcan0 123 [3] 02 3e 80", 0x123, "023e80"),
    "candump-classic-29bit": ("can1  18DA10F1   [8]  10 0A 22 F1 90 00 00 00", 0x18DA10F1, "100a22f190000000"),
    "log": ("(1700000000.123456) vcan0 7E8#0650014142434445", 0x7E8, "0650014142434445"),
    "log-lowercase": ("(0.5) can0 7e8#21aabbccddeeff00", 0x7E8, "21aabbccddeeff00"),
    "log-fd": ("(1700000000.5) vcan0 7E0##100100a22f190aabbccddeeff0011", 0x7E0, "00100a22f190aabbccddeeff0011"),
    "candump-classic-fd-size": ("  vcan0  7E0  [12]  00 0A 22 F1 90 01 02 03 04 05 06 07", 0x7E0,
                                "000a22f19001020304050607"),
    "candump-classic-64": ("  vcan0  7E8  [64]  " + " ".join(["%02X" % (i % 256) for i in range(64)]), 0x7E8,
                           "".join(["%02x" % (i % 256) for i in range(64)])),
    # a frame without data bytes denotes nothing that could be reassembled: it is skipped (with a warning), not an error
    "candump-classic-empty": ("  vcan0  7E0   [0]", None, None),
    "garbage": ("this is no candump line", None, None),
}


@harness(props=["C12", "C13"], strength="E",
         family=lambda t, s: [{"first": a, "second": b} for a in LOG_LINES for b in ("log", "candump-classic")],
         functions=[IsoTpStateMachine.read_telegrams], covers=["read"], assumes=["A-lib"], crosscheck=False)
def log_lines_denote_their_frames(first, second):
    """read_telegrams(text file) passes exactly the frames the lines denote to decode_rx_frame, in order, and yields
    what decode_rx_frame reports"""
    sm = IsoTpStateMachine([0x7E0, 0x7E8])
    seen = []

    def recorder(rx_id, data):
        seen.append((rx_id, bytes(data)))
        return [(rx_id, bytes(data))]

    sm.decode_rx_frame = recorder
    text = LOG_LINES[first][0] + "\n" + LOG_LINES[second][0] + "\n"
    out = []
    try:
        H.consume(lambda: sm.read_telegrams(io.StringIO(text)), lambda item: out.append(item))
    except Exception:
        H.check("C13:reading-a-log-never-raises", False)
        return
    H.check("C13:reading-a-log-never-raises", True)
    want = [(LOG_LINES[k][1], bytes.fromhex(LOG_LINES[k][2])) for k in (first, second) if LOG_LINES[k][1] is not None]
    H.cover("read")
    H.check("C12:every-log-line-is-decoded-as-the-frame-it-denotes-in-file-order", seen == want)
    H.check("C12:what-the-frame-decoder-reports-is-yielded", out == want)
