# Contracts for value inheritance (property C09) and communication-parameter inheritance (C15):
# odxtools/diaglayers/hierarchyelement.py, diaglayer.py, diaglayertype.py
#
# The real functions HierarchyElement._compute_available_objects, ._get_parent_refs_sorted_by_priority,
# ._compute_available_commmunication_parameters, .get_comparam and DiagLayer._compute_available_objects are executed on
# ghost layers (objects that carry only what these functions read: short name, variant type, parent references, local
# objects).  Recursion into a parent goes through the same real function.  Presence of objects, their equality and the
# NOT-INHERITED flags are symbolic; the hierarchy shapes are enumerated (B).
from dataclasses import dataclass

import odxtools.exceptions as X
from odxtools.diaglayers.diaglayer import DiagLayer
from odxtools.diaglayers.diaglayertype import DiagLayerType
from odxtools.diaglayers.hierarchyelement import HierarchyElement
from odxtools.exceptions import OdxError
from pyvc.api import H
from pyvc.registry import harness

T = {"PR": DiagLayerType.PROTOCOL, "FG": DiagLayerType.FUNCTIONAL_GROUP, "BV": DiagLayerType.BASE_VARIANT,
     "EV": DiagLayerType.ECU_VARIANT, "SD": DiagLayerType.ECU_SHARED_DATA}
PRIO = {"PR": 1, "FG": 2, "BV": 3, "EV": 4, "SD": 100}  # ISO 22901-1 7.3.2.4: shared data > ecu variant > ... > protocol


@dataclass
class Obj:
    short_name: str
    payload: int


class GhostParentRef:

    def __init__(self, layer, not_inherited):
        self.layer = layer
        self.not_inherited = not_inherited


class GhostRaw:
    """what the functions under contract read from a layer's raw data"""

    def __init__(self, name, kind):
        self.short_name = name
        self.variant_type = T[kind]
        self.parent_refs = []
        self.local = []
        self.comparam_refs = []


def GhostLayer(name, kind, concrete_class=False):
    """a real HierarchyElement (DiagLayer for shared data) object - the real methods are inherited - created without
    running the constructor, carrying only the ghost raw data; concrete_class: an object of the layer class of that
    kind (Protocol, FunctionalGroup, ...), so that methods these classes override are the ones that run"""
    cls = DiagLayer if kind == "SD" else HierarchyElement
    if concrete_class:
        from odxtools.diaglayers.basevariant import BaseVariant
        from odxtools.diaglayers.ecushareddata import EcuSharedData
        from odxtools.diaglayers.ecuvariant import EcuVariant
        from odxtools.diaglayers.functionalgroup import FunctionalGroup
        from odxtools.diaglayers.protocol import Protocol
        cls = {"PR": Protocol, "FG": FunctionalGroup, "BV": BaseVariant, "EV": EcuVariant, "SD": EcuSharedData}[kind]
    L = cls.__new__(cls)
    L.diag_layer_raw = GhostRaw(name, kind)
    L.kind = kind
    if concrete_class:
        return L  # (the concrete classes expose parent_refs as a property of the raw data)
    L.local = L.diag_layer_raw.local
    L.parent_refs = L.diag_layer_raw.parent_refs
    return L


# shape: list of (layer name, kind, [parent names]); the first entry is the layer whose view is computed
SHAPES = {
    "bv-pr": [("bv", "BV", ["pr"]), ("pr", "PR", [])],
    "ev-bv-pr": [("ev", "EV", ["bv"]), ("bv", "BV", ["pr"]), ("pr", "PR", [])],
    "ev-bv+sd": [("ev", "EV", ["bv", "sd"]), ("bv", "BV", []), ("sd", "SD", [])],
    "bv-fg1+fg2": [("bv", "BV", ["fg1", "fg2"]), ("fg1", "FG", []), ("fg2", "FG", [])],
    "bv-fg1+fg2+sd": [("bv", "BV", ["fg1", "sd", "fg2"]), ("fg1", "FG", []), ("fg2", "FG", []), ("sd", "SD", [])],
    "diamond": [("bv", "BV", ["fg", "pr"]), ("fg", "FG", ["pr"]), ("pr", "PR", [])],
    "ev-bv-fg1+fg2": [("ev", "EV", ["bv"]), ("bv", "BV", ["fg1", "fg2"]), ("fg1", "FG", []), ("fg2", "FG", [])],
}


def build(shape):
    layers = {}
    for name, kind, parents in SHAPES[shape]:
        layers[name] = GhostLayer(name, kind)
    for name, kind, parents in SHAPES[shape]:
        L = layers[name]
        if H.bool(f"{name}_defines_x"):
            L.local.append(Obj("x", H.pick(f"{name}_x_payload", [0, 1])))
        if name == SHAPES[shape][-1][0]:
            L.local.append(Obj("y", 7))  # a second name, defined in the root-most layer only
        for p in parents:
            ni = []
            if H.bool(f"{name}_excludes_x_from_{p}"):
                ni.append("x")
            L.parent_refs.append(GhostParentRef(layers[p], ni))
    return layers


def spec_view(layer, memo):
    """ISO 22901-1 7.3.2.4, per short name: local objects; otherwise, among the parents that offer the name and do not
    exclude it, the ones of highest priority - several of them with unequal objects is an unsettled clash.
    Returns {name: (object, clash)}"""
    if layer.short_name in memo:
        return memo[layer.short_name]
    view = {}
    offers = {}
    for pr in layer.parent_refs:
        pv = spec_view(pr.layer, memo)
        for n, (o, clash) in pv.items():
            if n in pr.not_inherited:
                continue
            offers.setdefault(n, []).append((PRIO[pr.layer.kind], o))
    for n, cands in offers.items():
        top = max([c[0] for c in cands])
        best = [o for (p, o) in cands if p == top]
        clash = any([not (o == best[0]) for o in best])
        view[n] = (best[0], clash)
    for o in layer.local:
        view[o.short_name] = (o, False)
    memo[layer.short_name] = view
    return view


def _local(dl):
    return dl.diag_layer_raw.local


def _not_inherited(pr):
    return pr.not_inherited


@harness(props=["C09", "C10"], strength="B", family=lambda t, s: [{"shape": k} for k in SHAPES],
         bound="seven hierarchy shapes of 2..4 layers over the five layer types (chains, two parents of equal priority, a "
         "higher-priority parent settling a clash, diamond); per layer presence and equality of a same-named object "
         "and per parent reference its NOT-INHERITED flag are symbolic",
         functions=[HierarchyElement._compute_available_objects, HierarchyElement._get_parent_refs_sorted_by_priority,
                    DiagLayer._compute_available_objects, DiagLayerType.inheritance_priority],
         covers=["view", "clash"])
def value_inheritance(shape):
    """the objects visible in a layer = local objects + inherited ones minus NOT-INHERITED, local overrides inherited,
    the higher-priority parent wins, an unsettled equal-priority clash of unequal objects is an error in strict mode;
    a parent's own view and local objects are not altered by computing a child's view"""
    strict = H.bool("strict")
    H.set_global(X, "strict_mode", strict)
    layers = build(shape)
    target = layers[SHAPES[shape][0][0]]
    memo = {}
    expected = spec_view(target, memo)
    # views of the parents before the child's view is computed (frame)
    before = {n: ([id(o) for o in L.local], [(pr.layer.short_name, list(pr.not_inherited)) for pr in L.parent_refs])
              for n, L in layers.items()}
    unsettled = any([clash for (o, clash) in expected.values()])
    # a clash further up the hierarchy is reported when that ancestor's view is computed
    any_clash = any([clash for v in memo.values() for (o, clash) in v.values()])
    try:
        got = list(target._compute_available_objects(_local, _not_inherited))
    except OdxError:
        H.cover("clash")
        H.check("C09:error-only-for-an-unsettled-clash-of-unequal-objects-of-equal-priority", H.And(strict, any_clash))
        return
    H.cover("view")
    H.check("C09:an-unsettled-clash-is-reported-in-strict-mode", H.Or(H.Not(strict), not unsettled))
    if not any_clash:
        H.check("C09,C10:exactly-one-object-per-visible-name",
                sorted([o.short_name for o in got]) == sorted(list(expected.keys())))
        H.check("C09,C10:visible-object-is-local-else-from-the-highest-priority-parent-not-excluding-it",
                all([(o is expected[o.short_name][0]) or (o == expected[o.short_name][0]) for o in got
                     if o.short_name in expected]))
        H.check("C09:local-definitions-override-inherited-ones",
                all([any([g is o for g in got]) for o in target.local]))
    after = {n: ([id(o) for o in L.local], [(pr.layer.short_name, list(pr.not_inherited)) for pr in L.parent_refs])
             for n, L in layers.items()}
    H.check("C09:frame-no-layer-is-altered-by-computing-a-view", before == after)
    for name, L in layers.items():
        if L is not target and not any_clash:
            again = list(L._compute_available_objects(_local, _not_inherited))
            exp = spec_view(L, memo)
            H.check("C09:a-parents-own-view-is-unchanged",
                    sorted([id(o) for o in again]) == sorted([id(exp[k][0]) for k in exp]))


# ------------------------------------------------------------------------------------------- category wiring (C09)
# _finalize_init applies the inheritance function to 17 categories of objects, each with its own source of local
# objects and its own NOT-INHERITED list.  The real _finalize_init is run on a base variant with one protocol parent.
from odxtools.diagservice import DiagService  # noqa: E402
from odxtools.nameditemlist import NamedItemList  # noqa: E402
from odxtools.singleecujob import SingleEcuJob  # noqa: E402

# category -> (where the local objects live, the NOT-INHERITED list of the parent reference that applies - ISO 22901-1
# 7.3.2.4 / 7.4.x: diag comms, global negative responses, DOPs (all data dictionary items but tables), tables; the other
# categories cannot be excluded)
DDD_CATS = ["data_object_props", "structures", "dtc_dops", "static_fields", "end_of_pdu_fields",
            "dynamic_endmarker_fields", "dynamic_length_fields", "env_data_descs", "env_datas", "muxs", "tables"]
RAW_CATS = ["diag_comms", "global_negative_responses", "functional_classes", "additional_audiences", "state_charts"]
EXCLUDED_BY = {"diag_comms": "not_inherited_diag_comms", "global_negative_responses": "not_inherited_global_neg_responses",
               "tables": "not_inherited_tables", "functional_classes": None, "additional_audiences": None,
               "state_charts": None, "unit_groups": None}
for _c in DDD_CATS:
    EXCLUDED_BY.setdefault(_c, "not_inherited_dops")
ALL_CATS = RAW_CATS + DDD_CATS + ["unit_groups"]
EXCLUSION_LISTS = ["not_inherited_diag_comms", "not_inherited_global_neg_responses", "not_inherited_dops",
                   "not_inherited_tables", "not_inherited_variables"]


class GhostUnitSpec:
    def __init__(self, unit_groups):
        self.unit_groups = unit_groups
        self.units = NamedItemList([])
        self.physical_dimensions = NamedItemList([])


class GhostDDD:
    def __init__(self):
        self.admin_data = None
        self.sdgs = []
        self.unit_spec = None


class GhostFullRaw:
    def __init__(self, name, kind):
        self.short_name = name
        self.variant_type = T[kind]
        self.parent_refs = []
        self.comparam_refs = []
        self.diag_data_dictionary_spec = None

    def _resolve_snrefs(self, context):
        pass


class GhostFullParentRef:
    def __init__(self, layer):
        self.layer = layer


def _named(cls, name):
    o = cls.__new__(cls)
    o.short_name = name
    return o


def _populate(raw, prefix_names, with_ddd):
    """every category gets one object per name; names are unique per category"""
    for c in RAW_CATS:
        objs = []
        for n in prefix_names:
            if c == "diag_comms":
                objs.append(_named(DiagService if n != "j" else SingleEcuJob, f"{n}_{c}"))
            else:
                objs.append(Obj(f"{n}_{c}", 1))
        setattr(raw, c, objs)
    if with_ddd:
        ddd = GhostDDD()
        for c in DDD_CATS:
            setattr(ddd, c, [Obj(f"{n}_{c}", 1) for n in prefix_names])
        ddd.unit_spec = GhostUnitSpec([Obj(f"{n}_unit_groups", 1) for n in prefix_names])
        raw.diag_data_dictionary_spec = ddd


def _full_layer(name, kind, with_ddd, names):
    L = HierarchyElement.__new__(HierarchyElement)
    L.diag_layer_raw = GhostFullRaw(name, kind)
    _populate(L.diag_layer_raw, names, with_ddd)
    DiagLayer.__post_init__(L)  # the part of the constructor that does not insist on a real raw layer
    return L


@harness(props=["C09"], strength="B",          family=lambda t, s: [{"child_has_ddd": a, "parent_has_ddd": b} for a in (True, False) for b in (True, False)],
         bound="a base variant inheriting from one protocol layer; every one of the 17 object categories holds two "
         "objects (three for diag comms) in the parent and one in the child; the content of each of the five "
         "NOT-INHERITED lists of the parent reference is symbolic (empty or naming one object of every category)",
         functions=[HierarchyElement._finalize_init, HierarchyElement._compute_value_inheritance,
                    HierarchyElement._compute_available_diag_comms,
                    HierarchyElement._compute_available_global_neg_responses,
                    HierarchyElement._compute_available_ddd_spec_items,
                    HierarchyElement._compute_available_functional_classes,
                    HierarchyElement._compute_available_additional_audiences,
                    HierarchyElement._compute_available_state_charts,
                    HierarchyElement._compute_available_unit_groups, DiagLayer.__post_init__, DiagLayer._get_local_diag_comms,
                    DiagLayer._get_local_unit_groups],
         covers=["finalized"])
def category_wiring(child_has_ddd, parent_has_ddd):
    """after the real _finalize_init, every category of objects a layer offers = its own objects of that category +
    the parent's objects of that category minus the names in the NOT-INHERITED list that governs that category (and no
    other list), under the attribute of that category"""
    parent = _full_layer("pr", "PR", parent_has_ddd, ["p", "q", "j"])
    child = _full_layer("bv", "BV", child_has_ddd, ["r"])
    ref = GhostFullParentRef(parent)
    flags = {}
    for lst in EXCLUSION_LISTS:
        flags[lst] = H.bool(f"{lst}_names_p")
        setattr(ref, lst, [f"p_{c}" for c in ALL_CATS] if flags[lst] else [])
    child.diag_layer_raw.parent_refs.append(ref)
    parent._finalize_init(None, None)
    child._finalize_init(None, None)
    H.cover("finalized")
    _check_views(child, parent, ["p", "q", "j"], flags, child_has_ddd, parent_has_ddd)
    # second round: the raw data of the parent loses its "q" objects and the hierarchy is refreshed - what a layer
    # offers is recomputed from the raw data, not from the views of the previous round
    _drop(parent.diag_layer_raw, "q")
    parent._finalize_init(None, None)
    child._finalize_init(None, None)
    _check_views(child, parent, ["p", "j"], flags, child_has_ddd, parent_has_ddd)


def _drop(raw, n):
    for c in RAW_CATS:
        setattr(raw, c, [o for o in getattr(raw, c) if not o.short_name.startswith(n + "_")])
    ddd = raw.diag_data_dictionary_spec
    if ddd is not None:
        for c in DDD_CATS:
            setattr(ddd, c, [o for o in getattr(ddd, c) if not o.short_name.startswith(n + "_")])
        ddd.unit_spec.unit_groups = [o for o in ddd.unit_spec.unit_groups if not o.short_name.startswith(n + "_")]


def _view(layer, c):
    ddd = layer.diag_data_dictionary_spec
    if c in RAW_CATS:
        return getattr(layer, c)
    if c == "unit_groups":
        return [] if ddd.unit_spec is None else ddd.unit_spec.unit_groups
    return getattr(ddd, c)


def _check_views(child, parent, parent_names, flags, child_has_ddd, parent_has_ddd):
    for c in ALL_CATS:
        parent_defines = True if c in RAW_CATS else parent_has_ddd
        child_defines = True if c in RAW_CATS else child_has_ddd
        expected = []
        if parent_defines:
            for n in parent_names:
                excluded = n == "p" and EXCLUDED_BY[c] is not None and flags[EXCLUDED_BY[c]]
                if not excluded:
                    expected.append(f"{n}_{c}")
        if child_defines:
            expected.append(f"r_{c}")
        H.check("C09:each-category-inherits-its-own-objects-minus-its-own-not-inherited-list",
                sorted([o.short_name for o in _view(child, c)]) == sorted(expected))
        H.check("C09:a-parents-own-view-is-its-own-objects",
                sorted([o.short_name for o in _view(parent, c)]) ==
                sorted([f"{n}_{c}" for n in parent_names] if parent_defines else []))
    H.check("C09:services-and-jobs-are-the-diag-comms-of-that-kind",
            H.And(sorted([o.short_name for o in child.diag_services]) ==
                  sorted([o.short_name for o in child.diag_comms if isinstance(o, DiagService)]),
                  sorted([o.short_name for o in child.single_ecu_jobs]) ==
                  sorted([o.short_name for o in child.diag_comms if isinstance(o, SingleEcuJob)])))


# ----------------------------------------------------------------------------------- real raw layers, refreshed twice
# Three layers PROTOCOL <- FUNCTIONAL-GROUP <- BASE-VARIANT built with the real raw-layer constructors, real PARENT-REFs
# and an ODXLINK database; each layer goes through the library's own _resolve_odxlinks and _finalize_init (which ends in
# _resolve_snrefs of the raw layer and its parent references) - twice, like Database.refresh() called again.  The base
# variant may exclude a service that its parent only inherits.  What a layer offers is a function of the raw data: the
# second refresh gives the same views as the first.
from odxtools.diaglayers.basevariantraw import BaseVariantRaw  # noqa: E402
from odxtools.diaglayers.functionalgroupraw import FunctionalGroupRaw  # noqa: E402
from odxtools.diaglayers.protocolraw import ProtocolRaw  # noqa: E402
from odxtools.odxlink import DocType, OdxDocFragment, OdxLinkDatabase, OdxLinkId, OdxLinkRef  # noqa: E402
from odxtools.parentref import ParentRef  # noqa: E402

LFR = [OdxDocFragment("dlc", DocType.CONTAINER)]


def _raw(cls, name, kind, service_refs, gnrs, parent_refs, extra, comparam_refs=()):
    return cls(odx_id=OdxLinkId(f"layer.{name}", LFR), oid=None, short_name=name, long_name=None, description=None,
               variant_type=T[kind], admin_data=None, company_datas=NamedItemList(), functional_classes=NamedItemList(),
               diag_data_dictionary_spec=None, diag_comms_raw=list(service_refs), requests=NamedItemList(),
               positive_responses=NamedItemList(), negative_responses=NamedItemList(),
               global_negative_responses=NamedItemList(gnrs), import_refs=[], state_charts=NamedItemList(),
               additional_audiences=NamedItemList(), sub_components=NamedItemList(), libraries=NamedItemList(), sdgs=[],
               comparam_refs=list(comparam_refs), parent_refs=list(parent_refs), **extra)


class Gnr:
    """a global negative response (or a unit group) as inheritance sees it"""

    def __init__(self, name):
        self.short_name = name

    def _build_odxlinks(self):
        return {}

    def _resolve_odxlinks(self, odxlinks):
        pass

    def _resolve_snrefs(self, context):
        pass


def _ddds_with_unit_groups(names):
    from odxtools.diagdatadictionaryspec import DiagDataDictionarySpec
    from odxtools.unitspec import UnitSpec
    us = UnitSpec(unit_groups=NamedItemList([Gnr(n) for n in names]), units=NamedItemList(),
                  physical_dimensions=NamedItemList(), admin_data=None, sdgs=[])
    return DiagDataDictionarySpec(admin_data=None, data_object_props=NamedItemList(), dtc_dops=NamedItemList(),
                                  structures=NamedItemList(), static_fields=NamedItemList(),
                                  end_of_pdu_fields=NamedItemList(), dynamic_endmarker_fields=NamedItemList(),
                                  dynamic_length_fields=NamedItemList(), tables=NamedItemList(),
                                  env_data_descs=NamedItemList(), env_datas=NamedItemList(), muxs=NamedItemList(),
                                  unit_spec=us, sdgs=[])


def _pref(parent_name, not_inherited_services, not_inherited_gnrs):
    return ParentRef(layer_ref=OdxLinkRef(f"layer.{parent_name}", LFR), not_inherited_diag_comms=list(not_inherited_services),
                     not_inherited_variables=[], not_inherited_dops=[], not_inherited_tables=[],
                     not_inherited_global_neg_responses=list(not_inherited_gnrs))


@harness(props=["C09", "C18"], strength="B", family=lambda t, s: [{"rounds": 2}],
         bound="a protocol, a functional group and a base variant in a chain; services and a global negative response "
         "defined in the protocol and in the functional group; the base variant's NOT-INHERITED lists symbolic (an "
         "object the parent defines itself / an object the parent only inherits); two refreshes",
         functions=[HierarchyElement._finalize_init, HierarchyElement._compute_value_inheritance, DiagLayer._resolve_odxlinks,
                    DiagLayer._resolve_snrefs, BaseVariantRaw._resolve_odxlinks, BaseVariantRaw._resolve_snrefs,
                    FunctionalGroupRaw._resolve_odxlinks, ProtocolRaw._resolve_odxlinks, ParentRef._resolve_odxlinks,
                    ParentRef._resolve_snrefs],
         covers=["refreshed"])
def real_raw_layers_through_two_refreshes(rounds):
    """the services and global negative responses a layer offers after a refresh are those the ISO rule prescribes for
    the raw data - for every layer of the chain, and again after a second refresh"""
    db = OdxLinkDatabase()
    svc = {}
    for n in ("from_pr", "also_pr", "from_fg", "from_bv"):
        o = _named(DiagService, n)
        svc[n] = o
        db.update({OdxLinkId(f"svc.{n}", LFR): o})
    ref = {n: OdxLinkRef(f"svc.{n}", LFR) for n in svc}
    excl_inherited = H.bool("base_variant_excludes_a_service_its_parent_only_inherits")
    excl_local = H.bool("base_variant_excludes_a_service_its_parent_defines")
    excl_gnr = H.bool("base_variant_excludes_the_inherited_global_negative_response")
    pr_raw = _raw(ProtocolRaw, "pr", "PR", [ref["from_pr"], ref["also_pr"]], [Gnr("gnr_pr")], [],
                  {"comparam_spec_ref": OdxLinkRef("cps", LFR), "prot_stack_snref": None})
    fg_raw = _raw(FunctionalGroupRaw, "fg", "FG", [ref["from_fg"]], [], [_pref("pr", [], [])],
                  {"diag_variables_raw": [], "variable_groups": NamedItemList()})
    bv_raw = _raw(BaseVariantRaw, "bv", "BV", [ref["from_bv"]], [],
                  [_pref("fg", (["from_pr"] if excl_inherited else []) + (["from_fg"] if excl_local else []),
                         ["gnr_pr"] if excl_gnr else [])],
                  {"diag_variables_raw": [], "variable_groups": NamedItemList(), "dyn_defined_spec": None,
                   "base_variant_pattern": None})
    # unit groups: defined by the protocol and by the base variant, none by the functional group in between
    pr_raw.diag_data_dictionary_spec = _ddds_with_unit_groups(["ug_pr"])
    bv_raw.diag_data_dictionary_spec = _ddds_with_unit_groups(["ug_bv"])
    layers = {}
    for name, raw in (("pr", pr_raw), ("fg", fg_raw), ("bv", bv_raw)):
        L = HierarchyElement.__new__(HierarchyElement)
        L.diag_layer_raw = raw
        DiagLayer.__post_init__(L)
        layers[name] = L
        db.update({raw.odx_id: L})
    from odxtools.comparamspec import ComparamSpec
    db.update({OdxLinkId("cps", LFR): _named(ComparamSpec, "cps")})
    for r in range(rounds):
        # (before the second refresh the protocol loses one of its services: the views follow the raw data)
        pr_services = ["from_pr", "also_pr"] if r == 0 else ["from_pr"]
        pr_raw.diag_comms_raw = [ref[n] for n in pr_services]
        want = {
            "pr": (pr_services, ["gnr_pr"]),
            "fg": (pr_services + ["from_fg"], ["gnr_pr"]),
            "bv": ([n for n in pr_services + ["from_fg"] if not ((n == "from_pr" and excl_inherited) or
                                                                  (n == "from_fg" and excl_local))] + ["from_bv"],
                   [] if excl_gnr else ["gnr_pr"]),
        }
        for name in ("pr", "fg", "bv"):
            layers[name]._resolve_odxlinks(db)
        for name in ("pr", "fg", "bv"):
            layers[name]._finalize_init(None, db)
        H.cover("refreshed")
        for name in ("pr", "fg", "bv"):
            L = layers[name]
            H.check("C09:services-of-every-layer-are-those-the-rule-prescribes-after-every-refresh",
                    sorted([x.short_name for x in L.diag_services]) == sorted(want[name][0]))
            H.check("C09:global-negative-responses-of-every-layer-are-those-the-rule-prescribes-after-every-refresh",
                    sorted([x.short_name for x in L.global_negative_responses]) == sorted(want[name][1]))
            # the layer's own (raw) service list holds every service the layer refers to, not only embedded ones
            own = {"pr": pr_services, "fg": ["from_fg"], "bv": ["from_bv"]}[name]
            H.check("C09,C18:own-services-of-a-layer-are-the-referenced-and-the-embedded-ones",
                    H.And(sorted([x.short_name for x in L.diag_layer_raw.diag_services]) == sorted(own),
                          sorted([x.short_name for x in L.diag_layer_raw.diag_comms]) == sorted(own),
                          len(L.diag_layer_raw.single_ecu_jobs) == 0))
            us = L.diag_data_dictionary_spec.unit_spec
            H.check("C09:unit-groups-of-every-layer-are-its-own-plus-all-inherited-ones",
                    sorted([] if us is None else [x.short_name for x in us.unit_groups]) ==
                    (["ug_bv", "ug_pr"] if name == "bv" else ["ug_pr"]))


@harness(props=["C09", "C10"], strength="E",
         family=lambda t, s: [{"docref": d, "excluded": n} for d in (False, True) for n in (0, 1, 2)],
         functions=[ParentRef.from_et, ParentRef._resolve_odxlinks], covers=["bound"], crosscheck=False)
def parent_refs_from_xml_bind_the_named_layer(docref, excluded):
    """a PARENT-REF read from XML names its parent layer: with DOCREF the layer carrying the id in exactly that
    document (even if the referring document holds an object with the same local id), without DOCREF the one of the
    referring document; the NOT-INHERITED lists hold the names written in the element, in document order"""
    from xml.etree import ElementTree
    own = [OdxDocFragment("own_container", DocType.CONTAINER), OdxDocFragment("child", DocType.LAYER)]
    here = _named(DiagService, "object_of_the_referring_document")
    there = _named(DiagService, "object_of_the_named_document")
    db = OdxLinkDatabase()
    db.update({OdxLinkId("L", [own[0], OdxDocFragment("sibling", DocType.LAYER)]): here})
    db.update({OdxLinkId("L", [OdxDocFragment("other_container", DocType.CONTAINER),
                               OdxDocFragment("parent", DocType.LAYER)]): there})
    names = ["svc_a", "svc_b"][:excluded]
    xml = '<PARENT-REF ID-REF="L"' + (' DOCREF="other_container" DOCTYPE="CONTAINER"' if docref else '') + '>'
    if names:
        xml += "<NOT-INHERITED-DIAG-COMMS>" + "".join(
            [f'<NOT-INHERITED-DIAG-COMM><DIAG-COMM-SNREF SHORT-NAME="{n}"/></NOT-INHERITED-DIAG-COMM>' for n in names]
        ) + "</NOT-INHERITED-DIAG-COMMS>"
        xml += '<NOT-INHERITED-TABLES><NOT-INHERITED-TABLE><TABLE-SNREF SHORT-NAME="tab"/></NOT-INHERITED-TABLE>' \
               '</NOT-INHERITED-TABLES>'
    xml += "</PARENT-REF>"
    pr = ParentRef.from_et(ElementTree.fromstring(xml), own)
    H.check("C09:not-inherited-lists-hold-the-names-written-in-the-element",
            H.And(pr.not_inherited_diag_comms == names, pr.not_inherited_tables == (["tab"] if names else []),
                  pr.not_inherited_dops == [], pr.not_inherited_variables == [],
                  pr.not_inherited_global_neg_responses == []))
    pr._resolve_odxlinks(db)
    H.cover("bound")
    H.check("C09,C10:parent-is-the-layer-with-that-id-in-the-named-document-else-in-the-referring-one",
            pr.layer is (there if docref else here))


# =============================================================================================================== C15
import warnings  # noqa: E402

from odxtools.comparam import Comparam  # noqa: E402
from odxtools.comparaminstance import ComparamInstance  # noqa: E402
from odxtools.complexcomparam import ComplexComparam  # noqa: E402
from odxtools.nameditemlist import NamedItemList  # noqa: E402
from odxtools.odxlink import DocType, OdxDocFragment, OdxLinkRef  # noqa: E402

FR = [OdxDocFragment("cps", DocType.COMPARAM_SUBSET)]


def mk_spec(name, default, cls=Comparam):
    sp = cls.__new__(cls)
    sp.short_name = name
    sp.physical_default_value = default
    return sp


def mk_instance(spec, spec_id, value, protocol):
    ci = ComparamInstance(value=value, description=None, protocol_snref=protocol, prot_stack_snref=None,
                          spec_ref=OdxLinkRef(spec_id, FR))
    ci._spec = spec
    return ci


CP_SHAPES = {
    "bv-pr": SHAPES["bv-pr"],
    "ev-bv-pr": SHAPES["ev-bv-pr"],
    "diamond": SHAPES["diamond"],
    "bv-fg+pr": [("bv", "BV", ["pr", "fg"]), ("fg", "FG", []), ("pr", "PR", [])],
}


@harness(props=["C15"], strength="B", family=lambda t, s: [{"shape": k} for k in CP_SHAPES],
         bound="four hierarchy shapes of 2..3 layers; per layer the presence of a generic and of a protocol-specific "
         "instance of one parameter and of an instance of a second parameter is symbolic",
         functions=[HierarchyElement._compute_available_commmunication_parameters,
                    HierarchyElement._get_parent_refs_sorted_by_priority], covers=["done"])
def comparam_inheritance(shape):
    """communication parameters of a layer = those of its parents overridden per (parameter, protocol) by closer layers:
    whole-map postcondition keyed by (spec id, protocol qualifier)"""
    layers = {}
    for name, kind, parents in CP_SHAPES[shape]:
        layers[name] = GhostLayer(name, kind)
    spec_a, spec_b = mk_spec("CP_A", "0"), mk_spec("CP_B", "0")
    spec_a2 = mk_spec("CP_A", "1")  # a different parameter (other comparam subset) with the same short name
    defined = {}
    for name, kind, parents in CP_SHAPES[shape]:
        L = layers[name]
        for (sid, spec, proto) in (("ID_A", spec_a, None), ("ID_A", spec_a, "UDS"), ("ID_B", spec_b, None),
                                   ("ID_A2", spec_a2, None)):
            if H.bool(f"{name}_defines_{sid}_{proto}"):
                ci = mk_instance(spec, sid, f"{name}:{sid}:{proto}", proto)
                L.diag_layer_raw.comparam_refs.append(ci)
                defined[(name, sid, proto)] = ci
        for p in parents:
            L.diag_layer_raw.parent_refs.append(GhostParentRef(layers[p], []))
    target = layers[CP_SHAPES[shape][0][0]]

    def spec(layer):
        """declarative: own definition, else that of the highest-priority parent offering the key"""
        out = {}
        prs = sorted(layer.diag_layer_raw.parent_refs, key=lambda pr: PRIO[pr.layer.kind])
        for pr in prs:  # ascending priority: later (higher) overrides
            if pr.layer.kind == "SD":
                continue
            out.update(spec(pr.layer))
        for ci in layer.diag_layer_raw.comparam_refs:
            out[(ci.spec_ref.ref_id, ci.protocol_snref)] = ci
        return out

    got = target._compute_available_commmunication_parameters()
    want = spec(target)
    H.cover("done")
    H.check("C15:one-instance-per-parameter-and-protocol", len(got) == len(want))
    H.check("C15:closest-definition-wins-per-parameter-and-protocol",
            all([want.get((ci.spec_ref.ref_id, ci.protocol_snref)) is ci for ci in got]))
    H.check("C15:every-defined-key-is-present",
            sorted([(ci.spec_ref.ref_id, str(ci.protocol_snref)) for ci in got]) ==
            sorted([(k[0], str(k[1])) for k in want]))


@harness(props=["C15"], strength="B", family=lambda t, s: [{"shape": k} for k in ("bv-pr", "ev-bv-pr", "bv-fg+pr")],
         bound="three hierarchy shapes; layers are objects of the layer classes (Protocol, FunctionalGroup, BaseVariant, "
         "EcuVariant); the root-most layer's definition is replaced between two computations",
         functions=[HierarchyElement._compute_available_commmunication_parameters], covers=["done"])
def comparams_follow_the_raw_data(shape):
    """the communication parameters of a layer are a function of the raw data at the time they are computed (each
    refresh recomputes them): after a parent's definition was replaced, the layer and every layer below see the new one"""
    layers = {}
    for name, kind, parents in CP_SHAPES[shape]:
        layers[name] = GhostLayer(name, kind, concrete_class=True)
    for name, kind, parents in CP_SHAPES[shape]:
        for p in parents:
            layers[name].diag_layer_raw.parent_refs.append(GhostParentRef(layers[p], []))
    spec_a = mk_spec("CP_A", "0")
    root = layers["pr"]
    old = mk_instance(spec_a, "ID_A", "old", None)
    root.diag_layer_raw.comparam_refs.append(old)
    target = layers[CP_SHAPES[shape][0][0]]
    first = target._compute_available_commmunication_parameters()
    H.check("C15:inherited-definition-is-visible", [ci.value for ci in first] == ["old"])
    new = mk_instance(spec_a, "ID_A", "new", None)
    root.diag_layer_raw.comparam_refs[:] = [new]
    for L in (root, target):  # (a refresh recomputes the parents first)
        again = L._compute_available_commmunication_parameters()
        H.check("C15:after-a-change-of-the-raw-data-the-new-definition-is-the-one-seen",
                [ci.value for ci in again] == ["new"])
    H.cover("done")


def _lookup_family(tier, seed):
    orders = ["generic-first", "specific-first"]
    return [{"order": o, "has_generic": g, "has_specific": s, "has_other": x, "query": q}
            for o in orders for g in (False, True) for s in (False, True) for x in (False, True)
            for q in (None, "UDS", "KWP")]


@harness(props=["C15"], strength="E", family=_lookup_family, functions=[HierarchyElement.get_comparam],
         covers=["found", "none"])
def comparam_lookup(order, has_generic, has_specific, has_other, query):
    """get_comparam(name, protocol=p): the instance qualified with protocol p if there is one, else the generic one,
    else None; instances qualified with another protocol are never returned"""
    L = GhostLayer("bv", "BV")
    spec = mk_spec("CP_A", "0")
    generic = mk_instance(spec, "ID_A", "generic", None) if has_generic else None
    specific = mk_instance(spec, "ID_A", "specific", "UDS") if has_specific else None
    other = mk_instance(spec, "ID_A", "other", "OBD") if has_other else None
    decoy = mk_instance(mk_spec("CP_Z", "0"), "ID_Z", "decoy", None)
    items = [generic, specific] if order == "generic-first" else [specific, generic]
    L._comparam_refs = NamedItemList([x for x in [decoy, other] + items if x is not None])
    with warnings.catch_warnings():
        warnings.simplefilter("ignore")
        got = L.get_comparam("CP_A", protocol=query)
    if query is None:
        H.check("C15:lookup-without-protocol-returns-some-instance-of-the-parameter",
                (got is None) == (not (has_generic or has_specific or has_other)))
        if got is not None:
            H.check("C15:lookup-returns-an-instance-of-the-named-parameter", got.short_name == "CP_A")
        H.cover("found" if got is not None else "none")
        return
    want = None
    if query == "UDS" and has_specific:
        want = specific
    elif has_generic:
        want = generic
    H.cover("found" if want is not None else "none")
    H.check("C15:protocol-specific-definition-before-the-generic-one", got is want)


@harness(props=["C15"], strength="E",
         family=lambda t, s: [{"own": o, "nsub": n, "given": g} for o in ("value", "empty", "none")
                              for n in (1, 2, 3) for g in range(0, 4) if g <= n],
         functions=[ComparamInstance.get_value, ComparamInstance.get_subvalue, ComparamInstance.short_name],
         covers=["done"])
def comparam_values(own, nsub, given):
    """get_value = own value, else the PHYSICAL-DEFAULT-VALUE of the specification; get_subvalue(n) = own n-th value,
    else the default of that sub-parameter - an omitted trailing value is not an IndexError"""
    spec = mk_spec("CP_S", "default")
    val = {"value": "own", "empty": "", "none": None}[own]
    ci = mk_instance(spec, "ID_S", val, None)
    H.check("C15:value-falls-back-to-the-specification-default",
            ci.get_value() == ("own" if own == "value" else "default"))
    H.check("C15:short-name-is-that-of-the-specification", ci.short_name == "CP_S")
    subs = [mk_spec(f"SUB{i}", f"subdefault{i}") for i in range(nsub)]
    cspec = mk_spec("CP_C", None, ComplexComparam)
    cspec.subparams = NamedItemList(subs)
    values = [f"own{i}" for i in range(given)]
    cci = mk_instance(cspec, "ID_C", values, None)
    for i in range(nsub):
        try:
            with warnings.catch_warnings():
                warnings.simplefilter("ignore")
                r = cci.get_subvalue(f"SUB{i}")
        except IndexError:
            H.check("C15:omitted-trailing-sub-value-falls-back-to-the-default", False)
            return
        H.check("C15:sub-value-is-own-value-else-sub-parameter-default",
                r == (f"own{i}" if i < given else f"subdefault{i}"))
    with warnings.catch_warnings():
        warnings.simplefilter("ignore")
        H.check("C15:unknown-sub-parameter-yields-none", cci.get_subvalue("NOPE") is None)
    H.cover("done")


ACCESSORS = [
    # (method, comparam, sub-parameter or None, scale)
    ("get_can_receive_id", "CP_UniqueRespIdTable", "CP_CanPhysReqId", 1),
    ("get_can_send_id", "CP_UniqueRespIdTable", "CP_CanRespUSDTId", 1),
    ("get_doip_logical_ecu_address", "CP_UniqueRespIdTable", "CP_DoIPLogicalEcuAddress", 1),
    ("get_can_func_req_id", "CP_CanFuncReqId", None, 1),
    ("get_can_baudrate", "CP_Baudrate", None, 1),
    ("get_doip_logical_gateway_address", "CP_DoIPLogicalGatewayAddress", None, 1),
    ("get_doip_logical_tester_address", "CP_DoIPLogicalTesterAddress", None, 1),
    ("get_doip_logical_functional_address", "CP_DoIPLogicalFunctionalAddress", None, 1),
    ("get_doip_routing_activation_timeout", "CP_DoIPRoutingActivationTimeout", None, 1000000),
    ("get_tester_present_time", "CP_TesterPresentTime", None, 1000000),
]


@harness(props=["C15"], strength="E",
         family=lambda t, s: [{"acc": i, "state": st} for i in range(len(ACCESSORS))
                              for st in ("own", "default", "absent")],
         functions=[HierarchyElement.get_can_receive_id, HierarchyElement.get_can_send_id,
                    HierarchyElement.get_can_func_req_id, HierarchyElement.get_can_baudrate,
                    HierarchyElement.get_doip_logical_ecu_address, HierarchyElement.get_doip_logical_gateway_address,
                    HierarchyElement.get_doip_logical_tester_address,
                    HierarchyElement.get_doip_logical_functional_address,
                    HierarchyElement.get_doip_routing_activation_timeout, HierarchyElement.get_comparam],
         covers=["done"], crosscheck=False)
def typed_accessors(acc, state):
    """each typed accessor returns exactly the numeric content of the comparam (sub-)value the ISO tables name, the
    specification default when the value is omitted, None when the parameter is absent"""
    method, cpname, sub, scale = ACCESSORS[acc]
    L = GhostLayer("bv", "BV")
    number = H.pick("number", [0, 1, 2015, 500000])
    if sub is None:
        spec = mk_spec(cpname, str(number) if state == "default" else "999")
        ci = mk_instance(spec, "ID", str(number) if state == "own" else "", None)
    else:
        subs = [mk_spec("CP_Other", "5"), mk_spec(sub, str(number) if state == "default" else "999")]
        spec = mk_spec(cpname, None, ComplexComparam)
        spec.subparams = NamedItemList(subs)
        ci = mk_instance(spec, "ID", ["7", str(number)] if state == "own" else ["7"], None)
    L._comparam_refs = NamedItemList([] if state == "absent" else [ci])
    if not hasattr(HierarchyElement, method):
        return
    try:
        got = getattr(L, method)()
    except Exception:
        H.check("C15:typed-accessor-returns-without-error", False)
        return
    H.cover("done")
    if state == "absent":
        H.check("C15:typed-accessor-of-an-absent-parameter-is-none", got is None)
    else:
        H.check("C15:typed-accessor-returns-the-numeric-content", got == number / scale if scale != 1 else got == number)


# ------------------------------------------------------------------------------------- complex comparams from XML
# The positions of the sub-parameters of a COMPLEX-COMPARAM and the positions of the values in a COMPLEX-VALUE are what
# get_subvalue() and the typed accessors pair up.  Contract of ComplexComparam.from_et: subparams = the COMPARAM and
# COMPLEX-COMPARAM children in document order; of create_complex_value_from_et: one entry per SIMPLE-VALUE /
# COMPLEX-VALUE child in document order, an empty SIMPLE-VALUE being the empty string (which get_subvalue replaces by
# the default of the sub-parameter at that position).  Concrete documents, the real parsing code interpreted.
from xml.etree import ElementTree  # noqa: E402

from odxtools.complexcomparam import create_complex_value_from_et  # noqa: E402


def _cp(name, default="0"):
    return (f'<COMPARAM ID="cp.{name}" PARAM-CLASS="COM" CPTYPE="STANDARD" CPUSAGE="TESTER"><SHORT-NAME>{name}'
            f'</SHORT-NAME><PHYSICAL-DEFAULT-VALUE>{default}</PHYSICAL-DEFAULT-VALUE>'
            f'<DATA-OBJECT-PROP-REF ID-REF="dop.u32"/></COMPARAM>')


def _ccp(name, inner):
    return (f'<COMPLEX-COMPARAM ID="ccp.{name}" PARAM-CLASS="COM" CPTYPE="STANDARD" CPUSAGE="TESTER"><SHORT-NAME>{name}'
            f'</SHORT-NAME>{inner}</COMPLEX-COMPARAM>')


SUBPARAM_ORDERS = {
    "simple-only": ["a", "b", "c"],
    "complex-first": ["#n", "a", "b"],
    "complex-in-the-middle": ["a", "#n", "b"],
    "complex-last": ["a", "b", "#n"],
    "two-complex": ["#n", "a", "#m"],
}
VALUE_SHAPES = {
    "all-given": ["1", "2", "3"],
    "first-empty": ["", "2", "3"],
    "middle-empty": ["1", "", "3"],
    "last-empty": ["1", "2", ""],
    "trailing-omitted": ["1", "2"],
    "nested": ["1", ["7", ""], "3"],
}


def _value_xml(vals):
    out = ""
    for v in vals:
        if isinstance(v, list):
            out += "<COMPLEX-VALUE>" + _value_xml(v) + "</COMPLEX-VALUE>"
        elif v == "":
            out += "<SIMPLE-VALUE/>"
        else:
            out += f"<SIMPLE-VALUE>{v}</SIMPLE-VALUE>"
    return out


@harness(props=["C15"], strength="B",
         family=lambda t, s: [{"order": o, "values": "all-given"} for o in SUBPARAM_ORDERS] +
         [{"order": "simple-only", "values": v} for v in VALUE_SHAPES],
         bound="five orders of simple and complex sub-parameters, six shapes of complex values (empty, omitted and "
         "nested entries); concrete XML documents",
         functions=[ComplexComparam.from_et, create_complex_value_from_et, ComparamInstance.get_subvalue],
         covers=["parsed"], crosscheck=False)
def complex_comparam_from_xml(order, values):
    """sub-parameters and sub-values keep their document positions, so that get_subvalue(name) is the value written at
    the position of that sub-parameter (or its default where the value is empty or omitted)"""
    names = SUBPARAM_ORDERS[order]
    inner = "".join([_ccp(n[1:], _cp(n[1:] + "1")) if n.startswith("#") else _cp(n, default="d" + n) for n in names])
    et = ElementTree.fromstring(_ccp("cc", inner))
    spec = ComplexComparam.from_et(et, FR)
    H.cover("parsed")
    H.check("C15:sub-parameters-keep-their-document-order",
            [sp.short_name for sp in spec.subparams] == [n.lstrip("#") for n in names])
    vals = VALUE_SHAPES[values]
    got = create_complex_value_from_et(ElementTree.fromstring("<COMPLEX-VALUE>" + _value_xml(vals) + "</COMPLEX-VALUE>"))
    H.check("C15:sub-values-keep-their-document-positions-empty-ones-included", got == vals)
    if order == "simple-only":
        inst = mk_instance(spec, "ccp.cc", got, "UDS")
        for i, n in enumerate(names):
            want = vals[i] if i < len(vals) and vals[i] != "" else "d" + n
            if isinstance(want, list):
                continue
            H.check("C15:sub-value-is-the-one-written-at-the-sub-parameters-position-else-its-default",
                    inst.get_subvalue(n) == want)



@harness(props=["C15"], strength="E",
         family=lambda t, s: [{"layer": k} for k in ("PROTOCOL", "FUNCTIONAL-GROUP", "BASE-VARIANT", "ECU-VARIANT")],
         functions=[ProtocolRaw.from_et, FunctionalGroupRaw.from_et, BaseVariantRaw.from_et, ComparamInstance.from_et],
         covers=["parsed"], crosscheck=False)
def comparam_refs_of_a_layer_are_those_written_in_the_document(layer):
    """the COMPARAM-REFs of a layer read from XML are the ones the document holds, in document order: referenced
    parameter, value and - the key of the override rule - the PROTOCOL-SNREF exactly as written (none when omitted)"""
    from odxtools.diaglayers.ecuvariantraw import EcuVariantRaw
    cls = {"PROTOCOL": ProtocolRaw, "FUNCTIONAL-GROUP": FunctionalGroupRaw, "BASE-VARIANT": BaseVariantRaw,
           "ECU-VARIANT": EcuVariantRaw}[layer]
    xml = f'''<{layer} ID="L.uds"><SHORT-NAME>uds</SHORT-NAME><COMPARAM-REFS>
<COMPARAM-REF ID-REF="cp.a" DOCREF="cps" DOCTYPE="COMPARAM-SUBSET"><SIMPLE-VALUE>5</SIMPLE-VALUE></COMPARAM-REF>
<COMPARAM-REF ID-REF="cp.a" DOCREF="cps" DOCTYPE="COMPARAM-SUBSET"><SIMPLE-VALUE>6</SIMPLE-VALUE><PROTOCOL-SNREF SHORT-NAME="kwp"/></COMPARAM-REF>
<COMPARAM-REF ID-REF="cp.b" DOCREF="cps" DOCTYPE="COMPARAM-SUBSET"><SIMPLE-VALUE>7</SIMPLE-VALUE><PROT-STACK-SNREF SHORT-NAME="stack"/></COMPARAM-REF>
</COMPARAM-REFS><COMPARAM-SPEC-REF ID-REF="cps" DOCREF="cps" DOCTYPE="COMPARAM-SPEC"/></{layer}>'''
    raw = cls.from_et(ElementTree.fromstring(xml), LFR)
    H.cover("parsed")
    H.check("C15:comparam-refs-carry-the-protocol-qualifier-written-in-the-document",
            [(c.spec_ref.ref_id, c.value, c.protocol_snref, c.prot_stack_snref) for c in raw.comparam_refs] ==
            [("cp.a", "5", None, None), ("cp.a", "6", "kwp", None), ("cp.b", "7", None, "stack")])


# a layer may reference communication parameters of several comparam subsets; identical local ids in different subsets
# name different specifications (the reference carries the document fragment)
@harness(props=["C15"], strength="B", family=lambda t, s: [{"order": o} for o in ("can-first", "doip-first")],
         bound="one real raw layer with two COMPARAM-REFs whose ids agree locally and differ in the document fragment",
         functions=[BaseVariantRaw._resolve_odxlinks, ComparamInstance._resolve_odxlinks, ComparamInstance.get_value],
         covers=["resolved"], crosscheck=False)
def comparam_refs_resolve_per_document_fragment(order):
    """every COMPARAM-REF of a layer is bound to the specification its own (id, document fragment) names, so omitted
    values fall back to the default of that specification"""
    f_can = [OdxDocFragment("ISO_11898_2_DWCAN", DocType.COMPARAM_SUBSET)]
    f_doip = [OdxDocFragment("ISO_13400_2", DocType.COMPARAM_SUBSET)]
    spec_can = mk_spec("CP_TesterPresentTime", "2000000")
    spec_doip = mk_spec("CP_TesterPresentTime", "3000000")
    db = OdxLinkDatabase()
    db.update({OdxLinkId("CP_TesterPresentTime", f_can): spec_can, OdxLinkId("CP_TesterPresentTime", f_doip): spec_doip})
    ci_can = ComparamInstance(value="", description=None, protocol_snref="CAN", prot_stack_snref=None,
                              spec_ref=OdxLinkRef("CP_TesterPresentTime", f_can))
    ci_doip = ComparamInstance(value="", description=None, protocol_snref="DoIP", prot_stack_snref=None,
                               spec_ref=OdxLinkRef("CP_TesterPresentTime", f_doip))
    refs = [ci_can, ci_doip] if order == "can-first" else [ci_doip, ci_can]
    raw = _raw(BaseVariantRaw, "bv", "BV", [], [], [],
               {"diag_variables_raw": [], "variable_groups": NamedItemList(), "dyn_defined_spec": None,
                "base_variant_pattern": None}, comparam_refs=refs)
    raw._resolve_odxlinks(db)
    H.cover("resolved")
    H.check("C15:each-comparam-ref-is-bound-to-the-specification-of-its-own-fragment",
            H.And(ci_can.spec is spec_can, ci_doip.spec is spec_doip))
    H.check("C15:omitted-values-fall-back-to-the-default-of-that-specification",
            H.And(ci_can.get_value() == "2000000", ci_doip.get_value() == "3000000"))


# the frame-size accessor decides per protocol whether the bus is CAN
@harness(props=["C15"], strength="B", family=lambda t, s: [{"order": o, "fd_length": f} for o in ("can-first", "doip-first")
                                                           for f in (None, "TX_DL = 12", "TX_DL=64")],
         bound="a layer seeing one response-id table per protocol (CAN and DoIP), with or without CP_CANFDTxMaxDataLength",
         functions=[HierarchyElement.get_max_can_payload_size, HierarchyElement.get_can_receive_id,
                    HierarchyElement.get_comparam], covers=["done"], crosscheck=False)
def frame_size_per_protocol(order, fd_length):
    """get_max_can_payload_size(protocol): the CAN-FD length given for that protocol, else 8 if that protocol runs on CAN
    (it has a CAN receive id), else None - whatever the other protocols of the layer run on"""
    L = GhostLayer("bv", "BV")
    can_table = mk_spec("CP_UniqueRespIdTable", None, ComplexComparam)
    can_table.subparams = NamedItemList([mk_spec("CP_CanPhysReqId", "2016"), mk_spec("CP_CanRespUSDTId", "2024")])
    doip_table = mk_spec("CP_UniqueRespIdTable", None, ComplexComparam)
    doip_table.subparams = NamedItemList([mk_spec("CP_DoIPLogicalEcuAddress", "4096")])
    ci_can = mk_instance(can_table, "ID.can", ["2016", "2024"], "P_CAN")
    ci_doip = mk_instance(doip_table, "ID.doip", ["4096"], "P_DOIP")
    refs = [ci_can, ci_doip] if order == "can-first" else [ci_doip, ci_can]
    if fd_length is not None:
        refs.append(mk_instance(mk_spec("CP_CANFDTxMaxDataLength", "8"), "ID.fd", fd_length, "P_CAN"))
    L._comparam_refs = NamedItemList(refs)
    with warnings.catch_warnings():
        warnings.simplefilter("ignore")
        got_can = L.get_max_can_payload_size(protocol="P_CAN")
        got_doip = L.get_max_can_payload_size(protocol="P_DOIP")
    H.cover("done")
    H.check("C15:frame-size-of-the-can-protocol",
            got_can == (8 if fd_length is None else int(fd_length.split("=")[1])))
    H.check("C15:no-can-frame-size-for-a-protocol-that-does-not-run-on-can", got_doip is None)


# the identifiers a comparam subset contributes are those of the objects it holds *now*
from odxtools.comparamsubset import ComparamSubset  # noqa: E402


class IdObj:

    def __init__(self, lid, tag):
        self.odx_id = OdxLinkId(lid, FR)
        self.short_name = lid
        self.tag = tag

    def _build_odxlinks(self):
        return {self.odx_id: self}


@harness(props=["C15", "C10"], strength="B", family=lambda t, s: [{"what": w} for w in ("comparam", "complex-comparam")],
         bound="one subset with one simple and one complex comparam; one of them is replaced between two calls",
         functions=[ComparamSubset._build_odxlinks], covers=["done"], crosscheck=False)
def subset_links_follow_its_content(what):
    """ComparamSubset._build_odxlinks(): maps the ids to the objects the subset holds at the time of the call (a second
    refresh after a specification was replaced binds the references to the new specification and its defaults)"""
    sub = ComparamSubset.__new__(ComparamSubset)
    sub.odx_id = OdxLinkId("subset", FR)
    sub.short_name = "subset"
    sub.admin_data = None
    sub.company_datas = NamedItemList()
    sub.sdgs = []
    sub.data_object_props = NamedItemList()
    sub.unit_spec = None
    old_cp, new_cp = IdObj("CP_X", "old"), IdObj("CP_X", "new")
    old_ccp, new_ccp = IdObj("CCP_Y", "old"), IdObj("CCP_Y", "new")
    sub.comparams = NamedItemList([old_cp])
    sub.complex_comparams = NamedItemList([old_ccp])
    first = sub._build_odxlinks()
    if what == "comparam":
        sub.comparams = NamedItemList([new_cp])
    else:
        sub.complex_comparams = NamedItemList([new_ccp])
    second = sub._build_odxlinks()
    H.cover("done")
    H.check("C15,C10:ids-are-bound-to-the-objects-the-subset-holds-at-that-time",
            H.And(first[OdxLinkId("CP_X", FR)] is old_cp, first[OdxLinkId("CCP_Y", FR)] is old_ccp,
                  second[OdxLinkId("CP_X", FR)] is (new_cp if what == "comparam" else old_cp),
                  second[OdxLinkId("CCP_Y", FR)] is (old_ccp if what == "comparam" else new_ccp)))
