# Contracts for value inheritance (property C09) and communication-parameter inheritance (C15):
# odxtools/diaglayers/hierarchyelement.py, diaglayer.py, diaglayertype.py
#
# The real functions HierarchyElement._compute_available_objects, ._get_parent_refs_sorted_by_priority,
# ._compute_available_commmunication_parameters, .get_comparam and DiagLayer._compute_available_objects are executed on
# ghost layers (objects that carry only what these functions read: short name, variant type, parent references, local
# objects).  Recursion into a parent goes through the same real function.  Presence of objects, their equality and the
# NOT-INHERITED flags are symbolic; the hierarchy shapes are enumerated (B).
from dataclasses import dataclass

import odxtools.exceptions as X
from odxtools.diaglayers.diaglayer import DiagLayer
from odxtools.diaglayers.diaglayertype import DiagLayerType
from odxtools.diaglayers.hierarchyelement import HierarchyElement
from odxtools.exceptions import OdxError
from pyvc.api import H
from pyvc.registry import harness

T = {"PR": DiagLayerType.PROTOCOL, "FG": DiagLayerType.FUNCTIONAL_GROUP, "BV": DiagLayerType.BASE_VARIANT,
     "EV": DiagLayerType.ECU_VARIANT, "SD": DiagLayerType.ECU_SHARED_DATA}
PRIO = {"PR": 1, "FG": 2, "BV": 3, "EV": 4, "SD": 100}  # ISO 22901-1 7.3.2.4: shared data > ecu variant > ... > protocol


@dataclass
class Obj:
    short_name: str
    payload: int


class GhostParentRef:

    def __init__(self, layer, not_inherited):
        self.layer = layer
        self.not_inherited = not_inherited


class GhostLayer:

    def __init__(self, name, kind):
        self.short_name = name
        self.kind = kind
        self.variant_type = T[kind]
        self.parent_refs = []
        self.local = []
        self.comparam_refs = []
        self.diag_layer_raw = self  # the functions under contract read parent_refs through diag_layer_raw
        self.hierarchy_element_raw = self

    def _get_parent_refs_sorted_by_priority(self, reverse=False):
        return HierarchyElement._get_parent_refs_sorted_by_priority(self, reverse)

    def _compute_available_objects(self, get_local_objects, get_not_inherited):
        if self.kind == "SD":
            return DiagLayer._compute_available_objects(self, get_local_objects, get_not_inherited)
        return HierarchyElement._compute_available_objects(self, get_local_objects, get_not_inherited)


# shape: list of (layer name, kind, [parent names]); the first entry is the layer whose view is computed
SHAPES = {
    "bv-pr": [("bv", "BV", ["pr"]), ("pr", "PR", [])],
    "ev-bv-pr": [("ev", "EV", ["bv"]), ("bv", "BV", ["pr"]), ("pr", "PR", [])],
    "ev-bv+sd": [("ev", "EV", ["bv", "sd"]), ("bv", "BV", []), ("sd", "SD", [])],
    "bv-fg1+fg2": [("bv", "BV", ["fg1", "fg2"]), ("fg1", "FG", []), ("fg2", "FG", [])],
    "bv-fg1+fg2+sd": [("bv", "BV", ["fg1", "sd", "fg2"]), ("fg1", "FG", []), ("fg2", "FG", []), ("sd", "SD", [])],
    "diamond": [("bv", "BV", ["fg", "pr"]), ("fg", "FG", ["pr"]), ("pr", "PR", [])],
    "ev-bv-fg1+fg2": [("ev", "EV", ["bv"]), ("bv", "BV", ["fg1", "fg2"]), ("fg1", "FG", []), ("fg2", "FG", [])],
}


def build(shape):
    layers = {}
    for name, kind, parents in SHAPES[shape]:
        layers[name] = GhostLayer(name, kind)
    for name, kind, parents in SHAPES[shape]:
        L = layers[name]
        if H.bool(f"{name}_defines_x"):
            L.local.append(Obj("x", H.pick(f"{name}_x_payload", [0, 1])))
        if name == SHAPES[shape][-1][0]:
            L.local.append(Obj("y", 7))  # a second name, defined in the root-most layer only
        for p in parents:
            ni = []
            if H.bool(f"{name}_excludes_x_from_{p}"):
                ni.append("x")
            L.parent_refs.append(GhostParentRef(layers[p], ni))
    return layers


def spec_view(layer, memo):
    """ISO 22901-1 7.3.2.4, per short name: local objects; otherwise, among the parents that offer the name and do not
    exclude it, the ones of highest priority - several of them with unequal objects is an unsettled clash.
    Returns {name: (object, clash)}"""
    if layer.short_name in memo:
        return memo[layer.short_name]
    view = {}
    offers = {}
    for pr in layer.parent_refs:
        pv = spec_view(pr.layer, memo)
        for n, (o, clash) in pv.items():
            if n in pr.not_inherited:
                continue
            offers.setdefault(n, []).append((PRIO[pr.layer.kind], o))
    for n, cands in offers.items():
        top = max([c[0] for c in cands])
        best = [o for (p, o) in cands if p == top]
        clash = any([not (o == best[0]) for o in best])
        view[n] = (best[0], clash)
    for o in layer.local:
        view[o.short_name] = (o, False)
    memo[layer.short_name] = view
    return view


def _local(dl):
    return dl.local


def _not_inherited(pr):
    return pr.not_inherited


@harness(props=["C09"], strength="B", family=lambda t, s: [{"shape": k} for k in SHAPES],
         bound="seven hierarchy shapes of 2..4 layers over the five layer types (chains, two parents of equal priority, a "
         "higher-priority parent settling a clash, diamond); per layer presence and equality of a same-named object "
         "and per parent reference its NOT-INHERITED flag are symbolic",
         functions=[HierarchyElement._compute_available_objects, HierarchyElement._get_parent_refs_sorted_by_priority,
                    DiagLayer._compute_available_objects, DiagLayerType.inheritance_priority],
         covers=["view", "clash"])
def value_inheritance(shape):
    """the objects visible in a layer = local objects + inherited ones minus NOT-INHERITED, local overrides inherited,
    the higher-priority parent wins, an unsettled equal-priority clash of unequal objects is an error in strict mode;
    a parent's own view and local objects are not altered by computing a child's view"""
    strict = H.bool("strict")
    H.set_global(X, "strict_mode", strict)
    layers = build(shape)
    target = layers[SHAPES[shape][0][0]]
    memo = {}
    expected = spec_view(target, memo)
    # views of the parents before the child's view is computed (frame)
    before = {n: ([id(o) for o in L.local], [(pr.layer.short_name, list(pr.not_inherited)) for pr in L.parent_refs])
              for n, L in layers.items()}
    unsettled = any([clash for (o, clash) in expected.values()])
    # a clash further up the hierarchy is reported when that ancestor's view is computed
    any_clash = any([clash for v in memo.values() for (o, clash) in v.values()])
    try:
        got = list(target._compute_available_objects(_local, _not_inherited))
    except OdxError:
        H.cover("clash")
        H.check("C09:error-only-for-an-unsettled-clash-of-unequal-objects-of-equal-priority", H.And(strict, any_clash))
        return
    H.cover("view")
    H.check("C09:an-unsettled-clash-is-reported-in-strict-mode", H.Or(H.Not(strict), not unsettled))
    if not any_clash:
        H.check("C09:exactly-one-object-per-visible-name",
                sorted([o.short_name for o in got]) == sorted(list(expected.keys())))
        H.check("C09:visible-object-is-local-else-from-the-highest-priority-parent-not-excluding-it",
                all([(o is expected[o.short_name][0]) or (o == expected[o.short_name][0]) for o in got
                     if o.short_name in expected]))
        H.check("C09:local-definitions-override-inherited-ones",
                all([any([g is o for g in got]) for o in target.local]))
    after = {n: ([id(o) for o in L.local], [(pr.layer.short_name, list(pr.not_inherited)) for pr in L.parent_refs])
             for n, L in layers.items()}
    H.check("C09:frame-no-layer-is-altered-by-computing-a-view", before == after)
    for name, L in layers.items():
        if L is not target and not any_clash:
            again = list(L._compute_available_objects(_local, _not_inherited))
            exp = spec_view(L, memo)
            H.check("C09:a-parents-own-view-is-unchanged",
                    sorted([id(o) for o in again]) == sorted([id(exp[k][0]) for k in exp]))
