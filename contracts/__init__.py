# sidecar contracts for odxtools; one module per source area.  MODULES is the import list of the runner.
MODULES = [
    "isotp",
    "isotp_lemmas",
    "strictmode",
    "leaf",
    "composite",
    "endtoend",
    "nameditemlist",
    "odxlink",
    "compu",
    "hierarchy",
    "attribution",
    "compare",
    "variantmatcher", "snoop", "minmax",
]
