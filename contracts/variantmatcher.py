# Contracts for variant identification (property C14): odxtools/variantmatcher.py, odxtools/matchingparameter.py
#
# matcher_selects_first_match: the real VariantMatcher.request_loop / evaluate / has_match / _ident_response_matches /
#   _update_cache / _get_ident_response run over real EcuVariant objects (created without their constructors) whose
#   patterns, matching parameters, identification services and responses are ghosts.  The ECU is a deterministic
#   function request -> response; whether the response of a request satisfies a matching parameter is an abstract
#   (symbolic) fact, fixed per (parameter, request).  Which identification requests coincide is part of the family.
# matching_parameter_semantics: the real MatchingParameter.matches on concrete value shapes.
from contracts import build as B
from odxtools.diaglayers.ecuvariant import EcuVariant
from odxtools.diagservice import DiagService
from odxtools.exceptions import DecodeError
from odxtools.matchingparameter import MatchingParameter
from odxtools.variantmatcher import VariantMatcher
from pyvc.api import H
from pyvc.registry import harness

REQS = [b"\x22\x01", b"\x22\x02", b"\x22\x03"]


class GhostResponse:

    def __init__(self, owner):
        self.owner = owner

    def decode(self, response_bytes):
        # the response object decodes the bytes of "its" request's answer; anything else is a decode error
        if response_bytes == self.owner.answer:
            return {"answer_to": self.owner.req}
        raise DecodeError("ghost: not my response")


def IdentService(req, same_answer=False):
    """a real DiagService (created without its constructor) with a real request of coded constants: the request bytes
    are what the real DiagService.encode_request / Request.encode produce; responses and the answer are ghosts"""
    svc = DiagService.__new__(DiagService)
    svc._request = B.request([B.coded_const(f"b{i}", req[i], i) for i in range(len(req))])
    svc.req = req
    # (same_answer: an ECU that answers different identification requests with the same bytes)
    svc.answer = b"\x62\xff" if same_answer else b"\x62" + req[1:]
    svc._positive_responses = [GhostResponse(svc)]
    svc._negative_responses = []
    return svc


class GhostMatchingParam:

    def __init__(self, name, service, facts):
        self.name = name
        self.service = service
        self.facts = facts

    def get_ident_service(self, variant):
        return self.service

    def matches(self, decoded_vals):
        key = (self.name, decoded_vals["answer_to"])
        if key not in self.facts:
            self.facts[key] = H.bool(f"matches_{self.name}_{key[1].hex()}")
        return self.facts[key]


class GhostPattern:

    def __init__(self, params):
        self.params = params

    def get_matching_parameters(self):
        return self.params


class GhostRaw:

    def __init__(self, name, patterns):
        self.short_name = name
        self.ecu_variant_patterns = patterns


def _fam(tier, seed):
    shapes = [[[1]], [[1], [1]], [[2]], [[1, 1]], [[1], [2]], [[], [1]], [[1, 2]]]
    if tier == "thorough":
        shapes += [[[1], [1], [1]], [[2], [1, 1]], [[1, 1], [2]], [[1, 1, 1]]]
    out = []
    for shape in shapes:
        for sharing in ("distinct", "shared", "distinct-same-answer"):
            out.append({"shape": shape, "sharing": sharing})
    return out


@harness(props=["C14"], strength="B", family=_fam,
         bound="candidate lists of 1..3 variants with 0..3 patterns of 1..2 matching parameters (shapes enumerated); "
         "identification requests all distinct or all shared; match facts symbolic",
         functions=[VariantMatcher.__init__, VariantMatcher.request_loop, VariantMatcher.evaluate,
                    VariantMatcher.has_match, VariantMatcher.is_pending, VariantMatcher._ident_response_matches,
                    VariantMatcher._update_cache, VariantMatcher._get_ident_response, DiagService.encode_request],
         covers=["match", "no-match"])
def matcher_selects_first_match(shape, sharing):
    """the matcher reports the first candidate (list order) that has a pattern all of whose parameters match the ECU's
    answers, NO_MATCH otherwise; same outcome with and without cache; only identification requests of the candidates
    are issued; with the cache no request is issued twice"""
    facts = {}
    services = {r: IdentService(r, sharing == "distinct-same-answer") for r in REQS}
    variants = []
    n = 0
    all_params = []
    for vi, patterns in enumerate(shape):
        pats = []
        for pi, nparams in enumerate(patterns):
            params = []
            for k in range(nparams):
                req = REQS[0] if sharing == "shared" else REQS[n % len(REQS)]
                mp = GhostMatchingParam(f"v{vi}p{pi}m{k}", services[req], facts)
                n += 1
                params.append(mp)
                all_params.append(mp)
            pats.append(GhostPattern(params))
        v = EcuVariant.__new__(EcuVariant)
        v.diag_layer_raw = GhostRaw(f"variant{vi}", pats)
        v._global_negative_responses = []
        variants.append(v)
    outcomes = []
    for use_cache in (False, True):
        matcher = VariantMatcher(variants, use_cache=use_cache)
        issued = []

        def ecu_step(item):
            phys, req = item
            issued.append(bytes(req))
            matcher.evaluate(services[bytes(req)].answer)

        try:
            H.consume(matcher.request_loop, ecu_step)
        except Exception:
            H.check("C14:identification-completes-with-real-request-encodings", False)
            return
        H.check("C14:only-identification-requests-of-the-candidates-are-issued",
                all([r in [mp.service.req for mp in all_params] for r in issued]))
        if use_cache:
            H.check("C14:with-caching-no-request-is-issued-twice", len(issued) == len(set(issued)))
        outcomes.append((matcher.has_match(), matcher.matching_variant))
    # specification: first variant in list order with a pattern all of whose parameters match
    expected = None
    for v in variants:
        if expected is None:
            for pat in v.diag_layer_raw.ecu_variant_patterns:
                ok = True
                for mp in pat.params:
                    key = (mp.name, mp.service.req)
                    if key not in facts:
                        facts[key] = H.bool(f"matches_{mp.name}_{key[1].hex()}")
                    if not facts[key]:
                        ok = False
                        break
                if ok and expected is None:
                    expected = v
    H.cover("match" if expected is not None else "no-match")
    for (has, mv) in outcomes:
        H.check("C14:first-candidate-with-a-fully-matching-pattern-is-reported",
                H.And(has == (expected is not None), mv is expected))
    H.check("C14:outcome-does-not-depend-on-caching", outcomes[0][1] is outcomes[1][1])


# ---------------------------------------------------------------------------------------------------------------
# the same matcher over *real* patterns and matching parameters (EcuVariantPattern / BaseVariantPattern,
# MatchingParameter / MatchingBaseVariantParameter, get_ident_service through the layer's real service list): a pattern
# matches iff every one of its parameters' expected values equals the value the ECU reports - several parameters may
# name the same output parameter of the same service, and the expected value is compared as written
from odxtools.basevariantpattern import BaseVariantPattern  # noqa: E402
from odxtools.diaglayers.basevariant import BaseVariant  # noqa: E402
from odxtools.ecuvariantpattern import EcuVariantPattern  # noqa: E402
from odxtools.matchingbasevariantparameter import MatchingBaseVariantParameter  # noqa: E402
from odxtools.nameditemlist import NamedItemList  # noqa: E402

ALPHABET = ["3", "7", " 3", "AB12", "AB12    "]


class ValueResponse:
    """decodes any answer to {"id": <the value the ECU reports>}"""

    def __init__(self, value):
        self.value = value

    def decode(self, response_bytes):
        return {"id": self.value}


class GhostVariantRaw:

    def __init__(self, name):
        self.short_name = name
        self.ecu_variant_patterns = []
        self.base_variant_pattern = None


@harness(props=["C14"], strength="B", family=lambda t, s: [{"kind": k, "n": n} for k in ("ecu", "base") for n in (1, 2)],
         bound="one candidate with one pattern of 1..2 real matching parameters naming the same output parameter of one "
         "real identification service; expected values and the reported value from a 5-value alphabet with leading and "
         "trailing blanks",
         functions=[VariantMatcher.request_loop, VariantMatcher._ident_response_matches,
                    EcuVariantPattern.get_matching_parameters, BaseVariantPattern.get_matching_parameters,
                    MatchingParameter.get_ident_service, MatchingParameter.matches,
                    MatchingBaseVariantParameter.use_physical_addressing],
         covers=["match", "no-match"])
def real_patterns_match_iff_all_expected_values_are_reported(kind, n):
    """a candidate is reported iff every matching parameter of its pattern finds its expected value, as written, in the
    ECU's answer"""
    reported = H.pick("reported_value", ALPHABET)
    svc = IdentService(b"\x22\x01")
    # (a legal short name that is no Python identifier: item lists file it under a mangled key)
    svc.short_name = "91_ident"
    svc._positive_responses = [ValueResponse(reported)]
    expected = [H.pick(f"expected{i}", ALPHABET) for i in range(n)]
    if kind == "ecu":
        params = [MatchingParameter(expected_value=e, diag_comm_snref="91_ident", out_param_if_snref="id",
                                    out_param_if_snpathref=None) for e in expected]
        variant = EcuVariant.__new__(EcuVariant)
        variant.diag_layer_raw = GhostVariantRaw("candidate")
        variant.diag_layer_raw.ecu_variant_patterns = [EcuVariantPattern(matching_parameters=params)]
    else:
        params = [MatchingBaseVariantParameter(expected_value=e, diag_comm_snref="91_ident", out_param_if_snref="id",
                                               out_param_if_snpathref=None, use_physical_addressing_raw=None)
                  for e in expected]
        variant = BaseVariant.__new__(BaseVariant)
        variant.diag_layer_raw = GhostVariantRaw("candidate")
        variant.diag_layer_raw.base_variant_pattern = BaseVariantPattern(matching_base_variant_parameters=params)
    variant._diag_services = NamedItemList([svc])
    variant._global_negative_responses = []
    for use_cache in (False, True):
        matcher = VariantMatcher([variant], use_cache=use_cache)

        def ecu_step(item):
            matcher.evaluate(b"\x62\x01")

        H.consume(matcher.request_loop, ecu_step)
        want = all([e == reported for e in expected])
        H.cover("match" if want else "no-match")
        H.check("C14:candidate-reported-iff-all-expected-values-are-reported-as-written",
                H.And(matcher.has_match() == want, (matcher.matching_variant is variant) == want))


# the identification service is looked up among the services the candidate offers *after inheritance*: a service the
# candidate defines itself overrides an inherited one of the same name, also one from an ECU-SHARED-DATA layer
from contracts import hierarchy as HY  # noqa: E402


@harness(props=["C14"], strength="B", family=lambda t, s: [{"parent_kind": k} for k in ("SD", "BV")],
         bound="one ECU variant with one parent layer (shared data or base variant) that defines an identification "
         "service of the same name; the reported value symbolic over a 2-value alphabet",
         functions=[VariantMatcher.request_loop, MatchingParameter.get_ident_service,
                    HY.HierarchyElement._compute_available_objects], covers=["done"])
def candidate_uses_its_own_identification_service(parent_kind):
    """the request issued for a candidate is the one of the identification service the candidate itself defines, its
    answer is decoded with that service's responses"""
    own = IdentService(b"\x22\x01")
    own.short_name = "ident"
    inherited = IdentService(b"\x22\x02")
    inherited.short_name = "ident"
    reported = H.pick("value_reported_to_the_own_request", ["A", "B"])
    own._positive_responses = [ValueResponse(reported)]
    inherited._positive_responses = [ValueResponse("A")]
    parent = HY.GhostLayer("parent", parent_kind)
    parent.local.append(inherited)
    variant = EcuVariant.__new__(EcuVariant)
    variant.diag_layer_raw = HY.GhostRaw("candidate", "EV")
    variant.diag_layer_raw.local.append(own)
    variant.diag_layer_raw.parent_refs.append(HY.GhostParentRef(parent, []))
    variant.diag_layer_raw.ecu_variant_patterns = [EcuVariantPattern(matching_parameters=[
        MatchingParameter(expected_value="A", diag_comm_snref="ident", out_param_if_snref="id",
                          out_param_if_snpathref=None)])]
    variant._diag_services = NamedItemList(variant._compute_available_objects(HY._local, HY._not_inherited))
    variant._global_negative_responses = []
    matcher = VariantMatcher([variant], use_cache=False)
    issued = []

    def ecu_step(item):
        issued.append(bytes(item[1]))
        matcher.evaluate(b"\x62\x01")

    H.consume(matcher.request_loop, ecu_step)
    H.cover("done")
    H.check("C14:the-candidates-own-identification-request-is-issued", issued == [b"\x22\x01"])
    H.check("C14:candidate-reported-iff-its-own-service-reports-the-expected-value",
            matcher.has_match() == (reported == "A"))


# the answer of the ECU is decoded by the real Response.decode of a real response description (a static field whose
# items are padded, followed by the parameter the pattern looks at)
@harness(props=["C14"], strength="B", family=lambda t, s: [{"use_cache": c} for c in (False, True)] +
         [{"use_cache": False, "layout": "end-of-pdu-field"}],
         bound="one candidate; a real positive response: constant, static field of two padded items, one byte value - or "
         "a constant and an end-of-PDU field with MAX-NUMBER-OF-ITEMS whose third item is looked at; the value in the "
         "answer symbolic",
         functions=[VariantMatcher.request_loop, VariantMatcher._ident_response_matches, MatchingParameter.matches],
         covers=["match", "no-match"], assumes=["A-bitstruct"])
def answers_are_decoded_by_the_real_response(use_cache, layout="static-field"):
    """the expected value is compared with what the real response description decodes from the ECU's answer"""
    item = B.structure("item", [B.value_param("k", B.dop("u8k", 8))])
    if layout == "static-field":
        field = B.static_field("items", item, 2, 2)
        resp = B.response([B.coded_const("sid", 0x62, 0), B.value_param("items", field),
                           B.value_param("id", B.dop("u8id", 8))])
        mp = MatchingParameter(expected_value="5", diag_comm_snref="ident", out_param_if_snref="id",
                               out_param_if_snpathref=None)
    else:
        # (the library reads every item the answer holds, whatever MAX-NUMBER-OF-ITEMS says)
        field = B.end_of_pdu_field("items", item, min_items=1, max_items=2)
        resp = B.response([B.coded_const("sid", 0x62, 0), B.value_param("items", field)])
        mp = MatchingParameter(expected_value="5", diag_comm_snref="ident", out_param_if_snref=None,
                               out_param_if_snpathref="items.k")
    svc = IdentService(b"\x22\x01")
    svc.short_name = "ident"
    svc._positive_responses = [resp]
    variant = EcuVariant.__new__(EcuVariant)
    variant.diag_layer_raw = GhostVariantRaw("candidate")
    variant.diag_layer_raw.ecu_variant_patterns = [EcuVariantPattern(matching_parameters=[mp])]
    variant._diag_services = NamedItemList([svc])
    variant._global_negative_responses = []
    reported = H.int("id_in_the_answer", 0, 255)
    answer = bytes([0x62, 0x11, 0x00, 0x22, 0x00] if layout == "static-field" else [0x62, 0x11, 0x22]) + bytes([reported])
    matcher = VariantMatcher([variant], use_cache=use_cache)

    def ecu_step(item):
        matcher.evaluate(answer)

    H.consume(matcher.request_loop, ecu_step)
    H.cover("match" if matcher.has_match() else "no-match")
    H.check("C14:candidate-reported-iff-the-answer-carries-the-expected-value", H.eq(matcher.has_match(), reported == 5))


VALUES = {
    "plain-str": ({"p": "abc"}, "p", None, "abc", True),
    "plain-str-mismatch": ({"p": "abd"}, "p", None, "abc", False),
    "int": ({"p": 12}, "p", None, "12", True),
    "zero": ({"p": 0}, "p", None, "0", True),
    "float": ({"p": 1.5}, "p", None, "1.5", True),
    "bytes": ({"p": b"\xab\xcd"}, "p", None, "abCD", True),
    "missing": ({"q": 1}, "p", None, "1", False),
    "struct-path": ({"s": {"p": 7}}, None, "s.p", "7", True),
    "struct-path-mismatch": ({"s": {"p": 8}}, None, "s.p", "7", False),
    "field-any-item": ({"f": [{"p": 1}, {"p": 2}]}, None, "f.p", "2", True),
    "field-no-item": ({"f": [{"p": 1}, {"p": 3}]}, None, "f.p", "2", False),
    "table-struct": ({"t": ("row", {"p": 5})}, None, "t.p", "5", True),
    "empty-string": ({"p": ""}, "p", None, "", True),
}


@harness(props=["C14"], strength="E", family=lambda t, s: [{"case": k} for k in VALUES],
         functions=[MatchingParameter.matches, MatchingParameter._MatchingParameter__matches], covers=["done"])
def matching_parameter_semantics(case):
    """MatchingParameter.matches: descend along the SNREF / SNPATHREF through structures, table-struct tuples and field
    items (any item), compare the leaf with the expected value by type"""
    values, snref, snpathref, expected_value, want = VALUES[case]
    mp = MatchingParameter(expected_value=expected_value, diag_comm_snref="svc", out_param_if_snref=snref,
                           out_param_if_snpathref=snpathref)
    H.cover("done")
    H.check("C14:expected-value-equals-the-decoded-value-at-the-referenced-position", mp.matches(values) == want)
