# Native builders of small, real odxtools objects used by several contract modules (concrete descriptions; the symbolic
# parts are supplied by the harnesses)
from odxtools.compumethods.compumethod import CompuCategory
from odxtools.compumethods.identicalcompumethod import IdenticalCompuMethod
from odxtools.dataobjectproperty import DataObjectProperty
from odxtools.odxlink import DocType, OdxDocFragment, OdxLinkId, OdxLinkRef
from odxtools.odxtypes import DataType
from odxtools.parameters.codedconstparameter import CodedConstParameter
from odxtools.parameters.valueparameter import ValueParameter
from odxtools.physicaltype import PhysicalType
from odxtools.standardlengthtype import StandardLengthType

FRAGS = [OdxDocFragment("Verif", DocType.CONTAINER)]


def std_type(bits=8, dt=DataType.A_UINT32, enc=None, hl=None, mask=None, condensed=None):
    return StandardLengthType(base_data_type=dt, base_type_encoding=enc, bit_length=bits, bit_mask=mask,
                              is_highlow_byte_order_raw=hl, is_condensed_raw=condensed)


def identical(dt=DataType.A_UINT32):
    return IdenticalCompuMethod(category=CompuCategory.IDENTICAL, compu_internal_to_phys=None,
                                compu_phys_to_internal=None, internal_type=dt, physical_type=dt)


def dop(name="dop", bits=8, dt=DataType.A_UINT32, compu_method=None, dct=None, phys_dt=None):
    return DataObjectProperty(odx_id=OdxLinkId(f"id.{name}", FRAGS), oid=None, short_name=name, long_name=None,
                              description=None, admin_data=None, diag_coded_type=dct or std_type(bits, dt),
                              physical_type=PhysicalType(base_data_type=phys_dt or dt, display_radix=None,
                                                         precision=None),
                              compu_method=compu_method or identical(dt), unit_ref=None, sdgs=[],
                              internal_constr=None, physical_constr=None)


def value_param(name, the_dop, byte_position=None, bit_position=None, default=None, semantic=None):
    p = ValueParameter(oid=None, short_name=name, long_name=None, description=None, semantic=semantic,
                       dop_ref=OdxLinkRef.from_id(the_dop.odx_id), dop_snref=None,
                       physical_default_value_raw=default, byte_position=byte_position, bit_position=bit_position,
                       sdgs=[])
    p._dop = the_dop
    if default is not None:
        p._physical_default_value = the_dop.physical_type.base_data_type.from_string(default)
    else:
        p._physical_default_value = None
    return p


def coded_const(name, value, byte_position=None, bits=8, semantic=None, dt=DataType.A_UINT32, bit_position=None):
    return CodedConstParameter(oid=None, short_name=name, long_name=None, description=None, semantic=semantic,
                               diag_coded_type=std_type(bits, dt), coded_value=value, byte_position=byte_position,
                               bit_position=bit_position, sdgs=[])
