# Native builders of small, real odxtools objects used by several contract modules (concrete descriptions; the symbolic
# parts are supplied by the harnesses)
from odxtools.compumethods.compumethod import CompuCategory
from odxtools.compumethods.identicalcompumethod import IdenticalCompuMethod
from odxtools.dataobjectproperty import DataObjectProperty
from odxtools.odxlink import DocType, OdxDocFragment, OdxLinkId, OdxLinkRef
from odxtools.odxtypes import DataType
from odxtools.parameters.codedconstparameter import CodedConstParameter
from odxtools.parameters.valueparameter import ValueParameter
from odxtools.physicaltype import PhysicalType
from odxtools.standardlengthtype import StandardLengthType

FRAGS = [OdxDocFragment("Verif", DocType.CONTAINER)]

# Every identifiable object a description is made of is noted here while the description is built; request() /
# response() then register all of them in a real OdxLinkDatabase and run the library's own _resolve_odxlinks /
# _resolve_snrefs over the description (the private attributes the builders pre-set are overwritten by what the real
# resolution code finds), so that the reference-resolution code of parameters, DOPs, fields, multiplexer cases, tables
# ... is part of the stack the obligations judge.
REGISTRY = []


def note(obj):
    REGISTRY.append(obj)
    return obj


def std_type(bits=8, dt=DataType.A_UINT32, enc=None, hl=None, mask=None, condensed=None):
    return StandardLengthType(base_data_type=dt, base_type_encoding=enc, bit_length=bits, bit_mask=mask,
                              is_highlow_byte_order_raw=hl, is_condensed_raw=condensed)


def identical(dt=DataType.A_UINT32):
    return IdenticalCompuMethod(category=CompuCategory.IDENTICAL, compu_internal_to_phys=None,
                                compu_phys_to_internal=None, internal_type=dt, physical_type=dt)


def dop(name="dop", bits=8, dt=DataType.A_UINT32, compu_method=None, dct=None, phys_dt=None, precision=None):
    return note(DataObjectProperty(odx_id=OdxLinkId(f"id.{name}", FRAGS), oid=None, short_name=name, long_name=None,
                              description=None, admin_data=None, diag_coded_type=dct or std_type(bits, dt),
                              physical_type=PhysicalType(base_data_type=phys_dt or dt, display_radix=None,
                                                         precision=precision),
                              compu_method=compu_method or identical(dt), unit_ref=None, sdgs=[],
                              internal_constr=None, physical_constr=None))


def value_param(name, the_dop, byte_position=None, bit_position=None, default=None, semantic=None):
    p = ValueParameter(oid=None, short_name=name, long_name=None, description=None, semantic=semantic,
                       dop_ref=OdxLinkRef.from_id(the_dop.odx_id), dop_snref=None,
                       physical_default_value_raw=default, byte_position=byte_position, bit_position=bit_position,
                       sdgs=[])
    return p


def coded_const(name, value, byte_position=None, bits=8, semantic=None, dt=DataType.A_UINT32, bit_position=None,
                hl=None):
    return CodedConstParameter(oid=None, short_name=name, long_name=None, description=None, semantic=semantic,
                               diag_coded_type=std_type(bits, dt, hl=hl), coded_value=value, byte_position=byte_position,
                               bit_position=bit_position, sdgs=[])


# ------------------------------------------------------------------------------------------------ more builders
from odxtools.compumethods.compudefaultvalue import CompuDefaultValue  # noqa: E402
from odxtools.compumethods.compuinternaltophys import CompuInternalToPhys  # noqa: E402
from odxtools.compumethods.compurationalcoeffs import CompuRationalCoeffs  # noqa: E402
from odxtools.compumethods.compuscale import CompuScale  # noqa: E402
from odxtools.compumethods.limit import IntervalType, Limit  # noqa: E402
from odxtools.compumethods.linearcompumethod import LinearCompuMethod  # noqa: E402
from odxtools.encoding import Encoding  # noqa: E402
from odxtools.minmaxlengthtype import MinMaxLengthType, Termination  # noqa: E402
from odxtools.nameditemlist import NamedItemList  # noqa: E402
from odxtools.parameters.matchingrequestparameter import MatchingRequestParameter  # noqa: E402
from odxtools.parameters.nrcconstparameter import NrcConstParameter  # noqa: E402
from odxtools.parameters.physicalconstantparameter import PhysicalConstantParameter  # noqa: E402
from odxtools.parameters.reservedparameter import ReservedParameter  # noqa: E402
from odxtools.parameters.systemparameter import SystemParameter  # noqa: E402
from odxtools.request import Request  # noqa: E402
from odxtools.response import Response, ResponseType  # noqa: E402


def linear(offset, factor, it=DataType.A_UINT32, pt=DataType.A_UINT32, lo=None, hi=None, default=None):
    def lim(v):
        return None if v is None else Limit(value_raw=str(v), value_type=it, interval_type=IntervalType.CLOSED)
    scale = CompuScale(short_label=None, description=None, lower_limit=lim(lo), upper_limit=lim(hi),
                       compu_inverse_value=None, compu_const=None,
                       compu_rational_coeffs=CompuRationalCoeffs(value_type=pt, numerators=[offset, factor],
                                                                 denominators=[]),
                       domain_type=it, range_type=pt)
    return LinearCompuMethod(category=CompuCategory.LINEAR,
                             compu_internal_to_phys=CompuInternalToPhys(
                                 compu_scales=[scale], prog_code=None,
                                 compu_default_value=None if default is None else CompuDefaultValue(
                                     v=default, vt=None, data_type=pt, compu_inverse_value=None)),
                             compu_phys_to_internal=None, physical_type=pt, internal_type=it)


def minmax_type(dt=DataType.A_BYTEFIELD, min_length=0, max_length=None, termination="ZERO", enc=None, hl=None):
    return MinMaxLengthType(base_data_type=dt, base_type_encoding=enc, is_highlow_byte_order_raw=hl,
                            min_length=min_length, max_length=max_length, termination=Termination[termination])


def reserved(name, bits, byte_position=None, bit_position=None):
    return ReservedParameter(oid=None, short_name=name, long_name=None, description=None, semantic=None,
                             byte_position=byte_position, bit_position=bit_position, sdgs=[], bit_length=bits)


def matching_request(name, request_byte_position, byte_length, byte_position=None):
    return MatchingRequestParameter(oid=None, short_name=name, long_name=None, description=None, semantic=None,
                                    byte_position=byte_position, bit_position=None, sdgs=[],
                                    request_byte_position=request_byte_position, byte_length=byte_length)


def nrc_const(name, values, byte_position=None, bits=8):
    return NrcConstParameter(oid=None, short_name=name, long_name=None, description=None, semantic=None,
                             byte_position=byte_position, bit_position=None, sdgs=[],
                             diag_coded_type=std_type(bits), coded_values=list(values))


def phys_const(name, the_dop, value_raw, byte_position=None):
    p = PhysicalConstantParameter(oid=None, short_name=name, long_name=None, description=None, semantic=None,
                                  byte_position=byte_position, bit_position=None, sdgs=[],
                                  dop_ref=OdxLinkRef.from_id(the_dop.odx_id), dop_snref=None,
                                  physical_constant_value_raw=value_raw)
    return p


def system_param(name, the_dop, sysparam, byte_position=None):
    p = SystemParameter(oid=None, short_name=name, long_name=None, description=None, semantic=None,
                        byte_position=byte_position, bit_position=None, sdgs=[],
                        dop_ref=OdxLinkRef.from_id(the_dop.odx_id), dop_snref=None, sysparam=sysparam)
    return p


def request(params, name="rq"):
    return finish(Request(odx_id=OdxLinkId(f"id.{name}", FRAGS), oid=None, short_name=name, long_name=None,
                          description=None, admin_data=None, parameters=NamedItemList(params), sdgs=[]))


def response(params, name="resp", kind="POSITIVE"):
    return finish(Response(odx_id=OdxLinkId(f"id.{name}", FRAGS), oid=None, short_name=name, long_name=None,
                           description=None, admin_data=None, parameters=NamedItemList(params), sdgs=[],
                           response_type=ResponseType[kind]))


class _Layer:
    """the diagnostic layer as short-name resolution sees it: the data dictionary of everything that was built"""

    def __init__(self, objs):
        self.diag_data_dictionary_spec = _DDD(objs)


class _DDD:

    def __init__(self, objs):
        from odxtools.environmentdatadescription import EnvironmentDataDescription
        from odxtools.structure import Structure
        from odxtools.table import Table
        self.data_object_props = NamedItemList([o for o in objs if isinstance(o, DataObjectProperty)])
        self.structures = NamedItemList([o for o in objs if isinstance(o, Structure)])
        self.env_data_descs = NamedItemList([o for o in objs if isinstance(o, EnvironmentDataDescription)])
        self.tables = NamedItemList([o for o in objs if isinstance(o, Table)])
        self.all_data_object_properties = NamedItemList([o for o in objs if not isinstance(o, Table)])


def finish(codec):
    """register everything built for this description and let the library resolve its references itself"""
    from odxtools.odxlink import OdxLinkDatabase
    from odxtools.snrefcontext import SnRefContext
    objs = list(REGISTRY)
    del REGISTRY[:]
    db = OdxLinkDatabase()
    for o in objs:
        db.update(o._build_odxlinks())
    db.update(codec._build_odxlinks())
    for o in objs:
        o._resolve_odxlinks(db)
    codec._resolve_odxlinks(db)
    context = SnRefContext(database=None)
    context.diag_layer = _Layer(objs)
    for o in objs:
        o._resolve_snrefs(context)
    codec._resolve_snrefs(context)
    return codec


# ------------------------------------------------------------------------------------------------ complex DOPs
from odxtools.endofpdufield import EndOfPduField  # noqa: E402
from odxtools.staticfield import StaticField  # noqa: E402
from odxtools.structure import Structure  # noqa: E402


def structure(name, params, byte_size=None):
    return note(Structure(odx_id=OdxLinkId(f"id.{name}", FRAGS), oid=None, short_name=name, long_name=None,
                     description=None, admin_data=None, sdgs=[], parameters=NamedItemList(params),
                     byte_size=byte_size, is_visible_raw=None))


def end_of_pdu_field(name, struct, min_items=None, max_items=None):
    f = EndOfPduField(odx_id=OdxLinkId(f"id.{name}", FRAGS), oid=None, short_name=name, long_name=None,
                      description=None, admin_data=None, sdgs=[], structure_ref=OdxLinkRef.from_id(struct.odx_id),
                      structure_snref=None, env_data_desc_ref=None, env_data_desc_snref=None, is_visible_raw=None,
                      min_number_of_items=min_items, max_number_of_items=max_items)
    return note(f)


def static_field(name, struct, n_items, item_byte_size):
    f = StaticField(odx_id=OdxLinkId(f"id.{name}", FRAGS), oid=None, short_name=name, long_name=None,
                    description=None, admin_data=None, sdgs=[], structure_ref=OdxLinkRef.from_id(struct.odx_id),
                    structure_snref=None, env_data_desc_ref=None, env_data_desc_snref=None, is_visible_raw=None,
                    fixed_number_of_items=n_items, item_byte_size=item_byte_size)
    return note(f)


# ------------------------------------------------------------------------------------------------ further DOP kinds
from odxtools.determinenumberofitems import DetermineNumberOfItems  # noqa: E402
from odxtools.diagnostictroublecode import DiagnosticTroubleCode  # noqa: E402
from odxtools.dtcdop import DtcDop  # noqa: E402
from odxtools.dynamiclengthfield import DynamicLengthField  # noqa: E402
from odxtools.leadinglengthinfotype import LeadingLengthInfoType  # noqa: E402


def leading_length_type(dt=DataType.A_BYTEFIELD, bits=8, enc=None, hl=None):
    return LeadingLengthInfoType(base_data_type=dt, base_type_encoding=enc, is_highlow_byte_order_raw=hl,
                                 bit_length=bits)


def dynamic_length_field(name, struct, count_dop, offset=1, count_byte_position=0):
    det = DetermineNumberOfItems(byte_position=count_byte_position, bit_position=None,
                                 dop_ref=OdxLinkRef.from_id(count_dop.odx_id))
    f = DynamicLengthField(odx_id=OdxLinkId(f"id.{name}", FRAGS), oid=None, short_name=name, long_name=None,
                           description=None, admin_data=None, sdgs=[],
                           structure_ref=OdxLinkRef.from_id(struct.odx_id), structure_snref=None,
                           env_data_desc_ref=None, env_data_desc_snref=None, is_visible_raw=None, offset=offset,
                           determine_number_of_items=det)
    return note(f)


def dtc(code, name):
    return DiagnosticTroubleCode(odx_id=OdxLinkId(f"id.dtc.{name}", FRAGS), oid=None, short_name=name,
                                 long_name=None, description=None, trouble_code=code, text=name,
                                 display_trouble_code=None, level=None, is_temporary_raw=None, sdgs=[])


def dtc_dop(name, dtcs, bits=16, linked=()):
    """linked: list of (DTC-DOP, [short names of the DTCs that are not inherited from it])"""
    from odxtools.dtcdop import LinkedDtcDop
    links = [LinkedDtcDop(not_inherited_dtc_snrefs=list(ni), dtc_dop_ref=OdxLinkRef.from_id(base.odx_id))
             for (base, ni) in linked]
    d = DtcDop(odx_id=OdxLinkId(f"id.{name}", FRAGS), oid=None, short_name=name, long_name=None, description=None,
               admin_data=None, sdgs=[], diag_coded_type=std_type(bits),
               physical_type=PhysicalType(base_data_type=DataType.A_UINT32, display_radix=None, precision=None),
               compu_method=identical(DataType.A_UINT32), dtcs_raw=list(dtcs), linked_dtc_dops_raw=links,
               is_visible_raw=None)
    return note(d)


from odxtools.multiplexer import Multiplexer  # noqa: E402
from odxtools.multiplexercase import MultiplexerCase  # noqa: E402
from odxtools.multiplexerswitchkey import MultiplexerSwitchKey  # noqa: E402


def mux(name, key_dop, cases, byte_position=1, key_byte_position=0, default=None):
    """cases: list of (case name, lower, upper, structure or None[, lower interval type, upper interval type]);
    default: (name, structure or None) of the default case"""
    sk = MultiplexerSwitchKey(byte_position=key_byte_position, bit_position=None,
                              dop_ref=OdxLinkRef.from_id(key_dop.odx_id))
    mcs = []
    for case in cases:
        (cname, lo, hi, st) = case[:4]
        lo_kind, hi_kind = (case[4], case[5]) if len(case) > 4 else ("CLOSED", "CLOSED")
        c = MultiplexerCase(short_name=cname, long_name=None, description=None,
                            structure_ref=None if st is None else OdxLinkRef.from_id(st.odx_id),
                            structure_snref=None,
                            lower_limit=Limit(value_raw=str(lo), value_type=DataType.A_UINT32,
                                              interval_type=IntervalType[lo_kind]),
                            upper_limit=Limit(value_raw=str(hi), value_type=DataType.A_UINT32,
                                              interval_type=IntervalType[hi_kind]))
        mcs.append(c)
    dc = None
    if default is not None:
        from odxtools.multiplexerdefaultcase import MultiplexerDefaultCase
        dc = MultiplexerDefaultCase(short_name=default[0], long_name=None, description=None,
                                    structure_ref=None if default[1] is None else OdxLinkRef.from_id(default[1].odx_id),
                                    structure_snref=None)
    return note(Multiplexer(odx_id=OdxLinkId(f"id.{name}", FRAGS), oid=None, short_name=name, long_name=None,
                       description=None, admin_data=None, sdgs=[], byte_position=byte_position, switch_key=sk,
                       default_case=dc, cases=NamedItemList(mcs), is_visible_raw=None))


from odxtools.parameters.tablekeyparameter import TableKeyParameter  # noqa: E402
from odxtools.parameters.tablestructparameter import TableStructParameter  # noqa: E402
from odxtools.table import Table  # noqa: E402
from odxtools.tablerow import TableRow  # noqa: E402


def table(name, key_dop, rows):
    """rows: list of (row name, key value, structure or None, dop or None)"""
    t = Table(odx_id=OdxLinkId(f"id.{name}", FRAGS), oid=None, short_name=name, long_name=None, description=None,
              semantic=None, key_label=None, struct_label=None, admin_data=None,
              key_dop_ref=OdxLinkRef.from_id(key_dop.odx_id), table_rows_raw=[], table_diag_comm_connectors=[], sdgs=[])
    trs = []
    for (rname, key, st, d) in rows:
        tr = TableRow(odx_id=OdxLinkId(f"id.{name}.{rname}", FRAGS), oid=None, short_name=rname, long_name=None,
                      description=None, key_raw=str(key), table_ref=OdxLinkRef.from_id(t.odx_id),
                      dop_ref=None if d is None else OdxLinkRef.from_id(d.odx_id), dop_snref=None,
                      structure_ref=None if st is None else OdxLinkRef.from_id(st.odx_id), structure_snref=None,
                      sdgs=[], audience=None, functional_class_refs=[], state_transition_refs=[],
                      pre_condition_state_refs=[], admin_data=None, is_executable_raw=None, semantic=None,
                      is_mandatory_raw=None, is_final_raw=None)
        trs.append(tr)
    t.table_rows_raw = list(trs)
    return note(t)


def table_key(name, tbl, byte_position=None, fixed_row=None):
    p = TableKeyParameter(oid=None, short_name=name, long_name=None, description=None, semantic=None,
                          byte_position=byte_position, bit_position=None, sdgs=[],
                          odx_id=OdxLinkId(f"id.{name}", FRAGS), table_ref=OdxLinkRef.from_id(tbl.odx_id),
                          table_snref=None,
                          table_row_ref=None if fixed_row is None else OdxLinkRef.from_id(fixed_row.odx_id),
                          table_row_snref=None)
    return p


def table_struct(name, key_param, byte_position=None):
    p = TableStructParameter(oid=None, short_name=name, long_name=None, description=None, semantic=None,
                             byte_position=byte_position, bit_position=None, sdgs=[],
                             table_key_ref=OdxLinkRef.from_id(key_param.odx_id), table_key_snref=None)
    return p


from odxtools.parameters.lengthkeyparameter import LengthKeyParameter  # noqa: E402
from odxtools.paramlengthinfotype import ParamLengthInfoType  # noqa: E402


def length_key(name, the_dop, byte_position=None, bit_position=None):
    p = LengthKeyParameter(oid=None, short_name=name, long_name=None, description=None, semantic=None,
                           byte_position=byte_position, bit_position=bit_position, sdgs=[],
                           odx_id=OdxLinkId(f"id.{name}", FRAGS), dop_ref=OdxLinkRef.from_id(the_dop.odx_id),
                           dop_snref=None)
    return p


def param_length_type(key_param, dt=DataType.A_UINT32, enc=None, hl=None):
    t = ParamLengthInfoType(base_data_type=dt, base_type_encoding=enc, is_highlow_byte_order_raw=hl,
                            length_key_ref=OdxLinkRef.from_id(key_param.odx_id))
    return t


from odxtools.dynamicendmarkerfield import DynamicEndmarkerField  # noqa: E402
from odxtools.dynenddopref import DynEndDopRef  # noqa: E402


def dynamic_endmarker_field(name, struct, end_dop, termination_value_raw):
    ref = DynEndDopRef(ref_id=end_dop.odx_id.local_id, ref_docs=list(end_dop.odx_id.doc_fragments),
                       termination_value_raw=termination_value_raw)
    f = DynamicEndmarkerField(odx_id=OdxLinkId(f"id.{name}", FRAGS), oid=None, short_name=name, long_name=None,
                              description=None, admin_data=None, sdgs=[],
                              structure_ref=OdxLinkRef.from_id(struct.odx_id), structure_snref=None,
                              env_data_desc_ref=None, env_data_desc_snref=None, is_visible_raw=None,
                              dyn_end_dop_ref=ref)
    return note(f)


from odxtools.environmentdata import EnvironmentData  # noqa: E402
from odxtools.environmentdatadescription import EnvironmentDataDescription  # noqa: E402


def env_data(name, params, dtc_values=(), all_value=None):
    return EnvironmentData(odx_id=OdxLinkId(f"id.{name}", FRAGS), oid=None, short_name=name, long_name=None,
                           description=None, admin_data=None, sdgs=[], parameters=NamedItemList(params),
                           byte_size=None, all_value=all_value, dtc_values=list(dtc_values))


def env_data_desc(name, dtc_param_name, env_datas):
    return note(EnvironmentDataDescription(odx_id=OdxLinkId(f"id.{name}", FRAGS), oid=None, short_name=name,
                                      long_name=None, description=None, admin_data=None, sdgs=[],
                                      param_snref=dtc_param_name, param_snpathref=None,
                                      env_datas=NamedItemList(env_datas), env_data_refs=[]))
