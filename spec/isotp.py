# spec.isotp -- ISO 15765-2 reassembly as a declarative per-frame transition on one reassembly cell, and the
# segmentation of a payload into frames.  Written from the property text (C12/C13) and ISO 15765-2, not from the
# code.  Runs natively and under the symbolic interpreter (only H.* and the plain Python subset).
#
# A cell is (buf, announced, last_seq): buf is None when no transfer is in progress.
from pyvc.api import H

SINGLE, FIRST, CONSECUTIVE, FLOW_CONTROL = 0, 1, 2, 3


def step(cell, data):
    """-> (cell', outputs, event).  outputs: list of telegram payloads reported for this frame (0 or 1)."""
    buf, announced, last = cell
    if len(data) == 0:
        return cell, [], "ignored-empty"
    ftype = data[0] >> 4
    low = data[0] & 0xF
    if ftype == SINGLE:
        if low == 0 and len(data) > 8:
            # CAN-FD single frame: low nibble 0 escapes to an 8-bit length in the second byte
            dl = data[1]
            return cell, [data[2:2 + dl]], "single-fd"
        return cell, [data[1:1 + low]], "single"
    if ftype == FIRST:
        if len(data) < 2:
            return cell, [], "ignored-short-first"
        n = low * 256 + data[1]
        return (data[2:], n, 0), [], "first"
    if ftype == CONSECUTIVE:
        if buf is None:
            return cell, [], "ignored-stray-consecutive"
        if low != (last + 1) % 16:
            return cell, [], "sequence-error"
        nbuf = buf + data[1:]
        if len(nbuf) >= announced:
            # complete: report the announced-length prefix once; the transfer is over
            return (None, announced, low), [nbuf[:announced]], "complete"
        return (nbuf, announced, low), [], "consecutive"
    if ftype == FLOW_CONTROL:
        return cell, [], "flow-control"
    return cell, [], "frame-type-error"


def first_frame(P, fs):
    """first frame of payload P (len(P) > fs-2) for frame size fs"""
    n = len(P)
    return bytes([0x10 | (n >> 8), n & 0xFF]) + P[:fs - 2]
