# spec.wire -- the ODX wire format of atomic values (ISO 22901-1 7.3.6), written declaratively and independently of
# odxtools' encoder/decoder.  dt/enc are the *names* of odxtools' enum members (harness parameters are JSON scalars);
# n (bit length) and bp (bit position) are concrete, values are symbolic or concrete.  Everything here runs both under
# the symbolic interpreter and natively (replay).
from pyvc.api import H

NUMERIC = ("A_INT32", "A_UINT32", "A_FLOAT32", "A_FLOAT64")
STRINGS = ("A_UTF8STRING", "A_ASCIISTRING", "A_UNICODE2STRING")

# (data type, encoding) pairs the ODX specification allows; None = no ENCODING attribute
LEGAL = {
    "A_UINT32": (None, "NONE", "BCD_P", "BCD_UP"),
    "A_INT32": (None, "TWOC", "ONEC", "SM"),
    "A_FLOAT32": (None, "NONE"),
    "A_FLOAT64": (None, "NONE"),
    "A_BYTEFIELD": (None, "NONE", "BCD_P", "BCD_UP"),
    "A_ASCIISTRING": (None, "ISO_8859_1", "ISO_8859_2", "WINDOWS_1252"),
    "A_UTF8STRING": (None, "UTF8"),
    "A_UNICODE2STRING": (None, "UCS2"),
}


def group_len(n, bp):
    """number of PDU bytes an n-bit object at bit position bp occupies"""
    return (n + bp + 7) // 8


def bcd_digits(enc, n):
    per = 4 if enc == "BCD_P" else 8
    return (n + per - 1) // per


BCD_MAX_DIGITS = 20  # more than any field of <= 64 bits can hold (16 nibbles / 8 bytes)


def bcd_raw(enc, v):
    """digit k (least significant first) of v sits in nibble k (BCD-P) / byte k (BCD-UP); v < 10^20"""
    per = 4 if enc == "BCD_P" else 8
    digits = H.decimal_digits(v, BCD_MAX_DIGITS)
    r = 0
    for k in range(BCD_MAX_DIGITS):
        r = r + digits[k] * (1 << (per * k))
    return r


def bcd_raw_from_digits(enc, digits):
    """field content for decimal digits (least significant first): digit k in nibble k (BCD-P) / byte k (BCD-UP)"""
    per = 4 if enc == "BCD_P" else 8
    r = 0
    for k in range(len(digits)):
        r = r + digits[k] * (1 << (per * k))
    return r


def value_from_digits(digits, overflow):
    v = overflow * 10**len(digits)
    for k in range(len(digits)):
        v = v + digits[k] * 10**k
    return v


def repr_ok(dt, enc, n, v):
    """is the integer v representable as dt/enc in n bits?"""
    if dt == "A_UINT32":
        if enc in (None, "NONE"):
            return H.And(0 <= v, v < (1 << n))
        return H.And(0 <= v, v < 10**BCD_MAX_DIGITS, bcd_raw(enc, v) < (1 << n))
    if dt == "A_INT32":
        if n == 0:
            return False
        if enc in (None, "TWOC"):
            return H.And(-(1 << (n - 1)) <= v, v < (1 << (n - 1)))
        return H.And(-(1 << (n - 1)) < v, v < (1 << (n - 1)))
    return True


def raw(dt, enc, n, v):
    """the n-bit unsigned field content representing integer v (requires repr_ok)"""
    if dt == "A_UINT32":
        if enc in (None, "NONE"):
            return v
        return bcd_raw(enc, v)
    if dt == "A_INT32":
        if enc in (None, "TWOC"):
            return H.ite(v >= 0, v, (1 << n) + v)
        if enc == "ONEC":
            return H.ite(v >= 0, v, (1 << n) - 1 + v)
        if enc == "SM":
            return H.ite(v >= 0, v, (1 << (n - 1)) - v)
    return v


def canonical(dt, enc, n, r):
    """is the field content r the canonical representation of some value (so that decode->encode is the identity)?"""
    if dt == "A_UINT32" and enc in ("BCD_P", "BCD_UP"):
        per = 4 if enc == "BCD_P" else 8
        cs = []
        for k in range(bcd_digits(enc, n)):
            cs.append(H.mod(H.div(r, 1 << (per * k)), 1 << per) <= 9)
        return H.And(cs)
    if dt == "A_INT32" and enc == "ONEC":
        return r != (1 << n) - 1  # negative zero
    if dt == "A_INT32" and enc == "SM":
        return r != (1 << (n - 1))  # negative zero
    return True


def val(dt, enc, n, r):
    """integer value of the n-bit field content r"""
    if dt == "A_UINT32":
        if enc in (None, "NONE"):
            return r
        per = 4 if enc == "BCD_P" else 8
        v = 0
        for k in range(bcd_digits(enc, n)):
            # like the ODX rule for BCD: each digit is the low nibble of its nibble/byte
            v = v + H.mod(H.div(r, 1 << (per * k)), 16) * 10**k
        return v
    if dt == "A_INT32":
        sign = 1 << (n - 1)
        if enc in (None, "TWOC"):
            return H.ite(r < sign, r, r - (1 << n))
        if enc == "ONEC":
            return H.ite(r < sign, r, r - (1 << n) + 1)
        if enc == "SM":
            return H.ite(r < sign, r, -(r - sign))
    return r


def field_mask(n, bp):
    """mask of the n claimed bits inside the group (group read as one big-endian integer)"""
    return ((1 << n) - 1) << bp


def swap_needed(dt, hl):
    """numeric types in low-high byte order: the bytes of the group are reversed in the PDU"""
    return (not hl) and dt in NUMERIC


def group_int(group_bytes, dt, hl):
    """the group as one integer: big-endian reading of the PDU bytes (reversed first for low-high numerics)"""
    b = group_bytes[::-1] if swap_needed(dt, hl) else group_bytes
    return int.from_bytes(b, "big")


def extend(old, length):
    """old PDU zero-extended to at least `length` bytes"""
    return old + bytes(H.ite(length > len(old), length - len(old), 0))


def byte_claims(dt, n, bp, hl):
    """for each PDU byte k of the group: (lo, width, shift): the claimed bits of that byte are bits lo..lo+width-1 and
    they hold bits shift+lo.. of the group integer (width 0: nothing claimed in that byte)"""
    L = group_len(n, bp)
    M = field_mask(n, bp)
    out = []
    for k in range(L):
        idx = L - 1 - k if swap_needed(dt, hl) else k
        shift = 8 * (L - 1 - idx)
        mk = (M >> shift) & 0xFF
        if mk == 0:
            out.append((0, 0, shift, mk))
            continue
        lo = (mk & -mk).bit_length() - 1
        width = bin(mk).count("1")
        out.append((lo, width, shift, mk))
    return out


def claimed_bits_hold(group_bytes, dt, n, bp, hl, R):
    """the claimed bits of the group hold field content R: bit i of R is bit bp+i of the group integer"""
    F = R * (1 << bp)
    cs = []
    k = 0
    for (lo, width, shift, mk) in byte_claims(dt, n, bp, hl):
        if width > 0:
            cs.append(H.mod(H.div(group_bytes[k], 1 << lo), 1 << width) == H.mod(H.div(F, 1 << (shift + lo)), 1 << width))
        k += 1
    return H.And(cs)
