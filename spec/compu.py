# spec.compu -- the ODX computational methods (ISO 22901-1 7.3.6.6) as exact formulas over the reals
from pyvc.api import H

INT_TYPES = ("A_INT32", "A_UINT32")
FLOAT_TYPES = ("A_FLOAT32", "A_FLOAT64")


def type_admits(dt, kind):
    """does a value of dynamic kind ('int' / 'float') have an admissible type for data type dt?"""
    if dt in INT_TYPES:
        return kind == "int"
    return kind in ("int", "float")


def within(value, lower, lower_kind, upper, upper_kind):
    """interval membership honouring OPEN / CLOSED (default) / INFINITE; a limit that is absent does not restrict"""
    cs = []
    if lower is not None and lower_kind != "INFINITE":
        cs.append(lower < value if lower_kind == "OPEN" else lower <= value)
    if upper is not None and upper_kind != "INFINITE":
        cs.append(value < upper if upper_kind == "OPEN" else value <= upper)
    return H.And(cs)


def linear(offset, factor, denominator, x):
    return (offset + factor * x) / denominator


def is_nearest_integer(r, exact):
    """r is an integer with |r - exact| <= 1/2"""
    return H.And(2 * r - 1 <= 2 * exact, 2 * exact <= 2 * r + 1)
